#!/usr/bin/env python3
"""Generate the shadow manifests under /verif/sim/shadow from /repo's *current* Cargo.toml files.

A shadow manifest has the same package name, features and dependency list as the original, but
  * `[lib] path` points at /repo/<crate>/src/lib.rs  (so checks always compile /repo's working tree),
  * rayon        -> /verif/sim/rayon-shim   (simulator-owned workers),
  * thread_local -> /verif/sim/tls-shim     (slots keyed by simulated worker),
  * ahash        -> default-features off + `no-rng` (seeds come from the run's hash-seed stream),
  * + yui_verif_rt (target of the `--cfg yui_verif` hooks).
/repo's own Cargo.toml / Cargo.lock are never touched.
"""
import os, re, sys, shutil

REPO = os.environ.get("VERIF_REPO", "/repo")
SIM = os.path.join(os.path.dirname(os.path.abspath(__file__)), "sim")
OUT = os.path.join(SIM, "shadow")

CRATES = ["yui", "yui-matrix", "yui-homology", "yui-link", "yui-khovanov", "bin-ykh"]


def patch_dep(line, crate):
    m = re.match(r"^(\s*)([A-Za-z0-9_\-]+)(\s*=\s*)(.*)$", line)
    if not m:
        return line
    name, rhs = m.group(2), m.group(4).strip()
    if name == "rayon":
        opt = ", optional = true" if "optional" in rhs and "true" in rhs else ""
        return f'rayon = {{ package = "rayon-shim", path = "../../rayon-shim"{opt} }}'
    if name == "thread_local":
        return 'thread_local = { package = "tls-shim", path = "../../tls-shim" }'
    if name == "ahash":
        feats = ["std", "no-rng"]
        fm = re.search(r"features\s*=\s*\[([^\]]*)\]", rhs)
        if fm:
            feats += [f.strip().strip('"') for f in fm.group(1).split(",") if f.strip()]
        vm = re.search(r'"([0-9][^"]*)"', rhs)
        ver = vm.group(1) if vm else "0.8"
        fl = ", ".join(f'"{f}"' for f in dict.fromkeys(feats))
        return f'ahash = {{ version = "{ver}", default-features = false, features = [{fl}] }}'
    return line


def gen(crate):
    src = os.path.join(REPO, crate, "Cargo.toml")
    text = open(src).read()
    out, section = [], None
    has_lib = False
    for line in text.splitlines():
        s = line.strip()
        if s.startswith("[") and s.endswith("]"):
            if section == "dependencies":
                out.append('yui_verif_rt = { path = "../../rt" }')
            section = s.strip("[]")
            if section == "lib":
                has_lib = True
        elif section == "dependencies" and s and not s.startswith("#"):
            line = patch_dep(line, crate)
        out.append(line)
    if section == "dependencies":
        out.append('yui_verif_rt = { path = "../../rt" }')
    assert not has_lib, f"{crate}: unexpected [lib] section, extend gen_shadow.py"
    if crate == "bin-ykh":
        # the binary's modules are compiled as a library so that the harness can call the
        # (cfg-gated) in-process entry point; main.rs (3 lines of printing) is not included.
        out += ["", "[lib]", 'name = "ykh_app"', f'path = "{SIM}/ykh-lib/lib.rs"']
    else:
        out += ["", "[lib]", f'path = "{REPO}/{crate}/src/lib.rs"']
    d = os.path.join(OUT, crate)
    os.makedirs(d, exist_ok=True)
    new = "\n".join(out) + "\n"
    p = os.path.join(d, "Cargo.toml")
    if not os.path.exists(p) or open(p).read() != new:
        open(p, "w").write(new)
    # resources are located through CARGO_MANIFEST_DIR at compile time
    res = os.path.join(REPO, crate, "resources")
    link = os.path.join(d, "resources")
    if os.path.isdir(res):
        if os.path.islink(link) and os.readlink(link) != res:
            os.unlink(link)
        if not os.path.lexists(link):
            os.symlink(res, link)


def main():
    os.makedirs(OUT, exist_ok=True)
    for c in CRATES:
        gen(c)
    lock = os.path.join(SIM, "Cargo.lock")
    if not os.path.exists(lock):
        shutil.copy(os.path.join(REPO, "Cargo.lock"), lock)
    print(f"shadow manifests written to {OUT}")


if __name__ == "__main__":
    main()
