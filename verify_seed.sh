#!/bin/bash
# verify_seed.sh <ID> <variant> <crate-dir> <cargo-package> <test-name>
# in the scratch worktree /tmp/mut-<ID>: patch applies, 610 tests pass with it, demo fails with it and passes without
ID=$1; V=$2; DIR=$3; PKG=$4; T=$5
W=${SEED_ROOT:-/tmp/mut}-$ID; cd $W || exit 9
export CARGO_TARGET_DIR=$W/target CARGO_NET_OFFLINE=true
git checkout -q -- . ; rm -rf $DIR/tests/${T}.rs
git apply OUT/$V/patch.diff || { echo "APPLY FAILED"; exit 9; }
S=$(cargo nextest run --workspace --no-fail-fast --tool-config-file pb:/w/lib/nextest.toml --profile pb --test-threads 8 --offline 2>&1 | grep -E "Summary" | tail -1)
echo "suite with patch: $S"
mkdir -p $DIR/tests; cp OUT/$V/demo.rs $DIR/tests/$T.rs
cargo test -p $PKG --test $T --offline -- --test-threads 1 > /tmp/seed_${ID}_${V}_with.log 2>&1; echo "demo with patch: exit=$? $(grep -E '^test result' /tmp/seed_${ID}_${V}_with.log | tail -1)"
git checkout -q -- .
cargo test -p $PKG --test $T --offline -- --test-threads 1 > /tmp/seed_${ID}_${V}_clean.log 2>&1; echo "demo clean: exit=$? $(grep -E '^test result' /tmp/seed_${ID}_${V}_clean.log | tail -1)"
rm -f $DIR/tests/$T.rs; rmdir $DIR/tests 2>/dev/null
git status --short | grep -v OUT | head -3
