#!/bin/bash
# one-time build of the simulation workspace (offline, from files on disk only)
set -eu
cd /verif
export CARGO_NET_OFFLINE=true
unset RUSTFLAGS CARGO_ENCODED_RUSTFLAGS CARGO_BUILD_RUSTFLAGS CARGO_BUILD_TARGET RUSTC_WRAPPER CARGO_BUILD_RUSTC_WRAPPER RUSTC CARGO_PROFILE_RELEASE_DEBUG_ASSERTIONS CARGO_PROFILE_RELEASE_OVERFLOW_CHECKS
export CARGO_TARGET_DIR=/verif/target
python3 gen_shadow.py
cd sim && cargo build --release --offline -p yui-sim
