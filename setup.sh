#!/bin/bash
# one-time build of the simulation workspace (offline, from files on disk only)
set -eu
cd /verif
export CARGO_NET_OFFLINE=true
python3 gen_shadow.py
cd sim && cargo build --release --offline -p yui-sim
