//! rayon-shim — the subset of rayon's API that taketo1024/yui uses, executed on simulator-owned
//! workers (shuttle tasks).
//!
//! Contract kept as rayon documents it:
//!  * `collect::<Vec<_>>()` of an indexed pipeline preserves index order;
//!  * `for_each` gives no ordering guarantee; items are handed to `k` workers that pull from a
//!    shared queue (front / back / random = stealing), every pick-up is a scheduling point;
//!  * a panic in a job is caught on the worker and re-raised in the caller after all workers
//!    have stopped;
//!  * a worker keeps its identity (hence its `thread_local` slot) for all items it handles within
//!    one parallel call.
//! Outside a simulation (no shuttle execution) everything runs sequentially on the caller.

use std::collections::VecDeque;
use std::ops::Range;
use std::panic::{catch_unwind, resume_unwind, AssertUnwindSafe};
/// All simulated tasks of a run share one OS thread, so these mutexes can never be legitimately
/// contended; contention means a guard was held across a scheduling point (a shim bug) and would
/// otherwise show up as an OS-level self-deadlock.
pub(crate) struct StdMutex<T>(std::sync::Mutex<T>);
impl<T> StdMutex<T> {
    pub fn new(t: T) -> Self { StdMutex(std::sync::Mutex::new(t)) }
    #[track_caller]
    pub fn lock(&self) -> std::sync::LockResult<std::sync::MutexGuard<'_, T>> {
        match self.0.try_lock() {
            Ok(g) => Ok(g),
            Err(std::sync::TryLockError::Poisoned(p)) => Err(p),
            Err(std::sync::TryLockError::WouldBlock) => panic!("rayon-shim: internal mutex held across a scheduling point"),
        }
    }
    pub fn into_inner(self) -> std::sync::LockResult<T> { self.0.into_inner() }
}

use yui_verif_rt as rt;

pub mod prelude {
    pub use crate::iter::{
        FromParallelIterator, IntoParallelIterator, IntoParallelRefIterator, ParallelIterator,
    };
}

// ---------------------------------------------------------------------------------------------
// the simulated thread pool
// ---------------------------------------------------------------------------------------------
//
// Like rayon, the shim owns ONE pool of worker threads per process (here: per simulated run);
// the workers are simulated tasks that live until the run ends, so a worker keeps its identity
// across parallel calls.  A parallel call posts a batch of items; idle workers pull items from
// posted batches (pick-up = scheduling point).  A call issued by an outside thread blocks until
// its batch is complete; a call issued from inside a worker (nested parallelism) makes that
// worker execute items of its own batch while it waits, as a rayon worker does.

use std::any::Any;
use std::cell::RefCell;
use std::collections::{BTreeMap, BTreeSet};

type Job = *const (dyn Fn(usize) + Sync);

struct Batch {
    id: u64,
    job: Job,
    pending: VecDeque<usize>,
    unfinished: usize,
    limit: usize,
    active: usize,
    failed: Option<Box<dyn Any + Send>>,
    owner: shuttle::thread::Thread,
    owner_task: u32,
    back: bool,
    one_item: bool,
    all_on_one: bool,
    taken_by: BTreeMap<u32, usize>,
}

impl Batch {
    fn may_take(&self, me: u32, pool_size: usize) -> bool {
        if self.pending.is_empty() || self.active >= self.limit {
            return false;
        }
        if self.all_on_one && !self.taken_by.is_empty() && !self.taken_by.contains_key(&me) {
            return false;
        }
        if self.one_item {
            // every item on a different worker as long as fresh workers exist
            let mine = self.taken_by.get(&me).copied().unwrap_or(0);
            let min_round = if self.taken_by.len() < pool_size.min(self.limit) { 0 } else { self.taken_by.values().copied().min().unwrap_or(0) };
            if mine > min_round {
                return false;
            }
        }
        true
    }
}

struct Pool {
    size: usize,
    workers: BTreeSet<u32>,
    threads: Vec<shuttle::thread::Thread>,
    handles: Vec<shuttle::thread::JoinHandle<()>>,
    idle: Vec<shuttle::thread::Thread>,
    batches: Vec<Batch>,
    shutdown: bool,
    next_id: u64,
}

thread_local! {
    static POOL: RefCell<Option<Pool>> = const { RefCell::new(None) };
}

fn cur_task() -> Option<u32> {
    rt::current_task()
}

fn trace(msg: impl FnOnce() -> String) {
    if std::env::var_os("VERIF_SHIM_TRACE").is_some() {
        eprintln!("[shim t{:?}] {}", cur_task(), msg());
    }
}

fn with_pool<T>(f: impl FnOnce(&mut Pool) -> T) -> T {
    POOL.with(|p| f(p.borrow_mut().as_mut().expect("pool exists")))
}

/// one unit of work handed to a worker
struct Work {
    batch: u64,
    item: usize,
    job: Job,
}

fn take_work(me: u32, only_batch: Option<u64>) -> Option<Work> {
    with_pool(|p| {
        let size = p.size;
        // newest batch first (a rayon worker prefers the most recently pushed job)
        let n = p.batches.len();
        let mut order: Vec<usize> = (0..n).rev().collect();
        if only_batch.is_none() && n > 1 && rt::shim_below(3) == 0 {
            let k = rt::shim_below(n as u64) as usize;
            order.swap(0, k);
        }
        for bi in order {
            let b = &mut p.batches[bi];
            if let Some(ob) = only_batch {
                if b.id != ob { continue; }
            }
            if !b.may_take(me, size) { continue; }
            let item = if b.back { b.pending.pop_back() } else { b.pending.pop_front() }.unwrap();
            b.active += 1;
            *b.taken_by.entry(me).or_insert(0) += 1;
            trace(|| format!("take batch {} item {item} (pending {}, unfinished {})", b.id, b.pending.len(), b.unfinished));
            return Some(Work { batch: b.id, item, job: b.job });
        }
        None
    })
}

fn run_work(me: u32, w: Work) {
    rt::note_pickup(me, w.item);
    let job: &(dyn Fn(usize) + Sync) = unsafe { &*w.job };
    let res = catch_unwind(AssertUnwindSafe(|| {
        rt::fault_point("par.task_start");
        job(w.item)
    }));
    if res.is_err() {
        // the unwinding is over: waiters of locks released during it may now be woken
        rt::sync::flush_wakeups();
    }
    let wake = with_pool(|p| {
        let b = p.batches.iter_mut().find(|b| b.id == w.batch).expect("batch alive while items are active");
        b.active -= 1;
        b.unfinished -= 1;
        if let Err(e) = res {
            if b.failed.is_none() { b.failed = Some(e); }
            // like rayon, stop handing out the remaining items of a failed call
            b.unfinished -= b.pending.len();
            b.pending.clear();
        }
        let wake_owner = (b.unfinished == 0 && b.owner_task != me).then(|| b.owner.clone());
        // a finished item can make the batch takeable again for workers that had to stand back
        // (concurrency limit, one-item-per-worker fairness): let the idle ones look again
        let idle = if b.pending.is_empty() { vec![] } else { std::mem::take(&mut p.idle) };
        (wake_owner, idle)
    });
    let (wake, idle) = wake;
    for t in idle {
        t.unpark();
    }
    trace(|| format!("done batch {} item {} wake_owner={}", w.batch, w.item, wake.is_some()));
    if let Some(t) = wake {
        t.unpark();
    }
}

fn worker_main() {
    let me = cur_task().unwrap();
    with_pool(|p| p.workers.insert(me));
    loop {
        // pick-up is a scheduling point: which worker gets which item is the scheduler's call
        shuttle::thread::sleep(std::time::Duration::ZERO);
        match take_work(me, None) {
            Some(w) => run_work(me, w),
            None => {
                if with_pool(|p| p.shutdown) { break; }
                with_pool(|p| p.idle.push(shuttle::thread::current()));
                trace(|| "idle -> park".to_string());
                shuttle::thread::park();
                trace(|| "woke".to_string());
            }
        }
    }
}

fn ensure_pool(size: usize) {
    let exists = POOL.with(|p| p.borrow().is_some());
    if exists { return; }
    POOL.with(|p| *p.borrow_mut() = Some(Pool { size, workers: BTreeSet::new(), threads: vec![], handles: vec![], idle: vec![], batches: vec![], shutdown: false, next_id: 0 }));
    for _ in 0..size {
        let h = shuttle::thread::spawn(worker_main);
        with_pool(|p| { p.threads.push(h.thread().clone()); p.handles.push(h); });
    }
}

/// Ends the simulated pool; must be called (by the harness) inside the simulation when the body is
/// done, otherwise the parked workers look like a deadlock to the engine.
pub fn shim_shutdown_pool() {
    let Some((threads, handles)) = POOL.with(|p| p.borrow_mut().as_mut().map(|p| { p.shutdown = true; (p.threads.clone(), std::mem::take(&mut p.handles)) })) else { return };
    for t in threads { t.unpark(); }
    for h in handles { let _ = h.join(); }
    POOL.with(|p| *p.borrow_mut() = None);
}

/// Run `job(idx)` for idx in 0..n on the simulated pool.
fn exec(n: usize, job: &(dyn Fn(usize) + Sync)) {
    if n == 0 {
        return;
    }
    let (Some(me), Some(cfg)) = (cur_task(), rt::par_cfg()) else {
        for i in 0..n {
            job(i);
        }
        return;
    };
    let pool_size = cfg.workers.clamp(1, 16);
    ensure_pool(pool_size);
    let inside = with_pool(|p| p.workers.contains(&me));
    let limit = if inside { cfg.nested_workers.clamp(1, 16) } else { pool_size };
    rt::note_par_call(n, limit.min(n));

    let mut order: VecDeque<usize> = (0..n).collect();
    if cfg.pickup == rt::Pickup::Random {
        let v = order.make_contiguous();
        for i in (1..n).rev() {
            let j = rt::shim_below(i as u64 + 1) as usize;
            v.swap(i, j);
        }
    }
    let job_ptr: Job = unsafe { std::mem::transmute::<&(dyn Fn(usize) + Sync), Job>(job) };
    let (id, idle) = with_pool(|p| {
        let id = p.next_id;
        p.next_id += 1;
        p.batches.push(Batch {
            id,
            job: job_ptr,
            pending: order,
            unfinished: n,
            limit,
            active: 0,
            failed: None,
            owner: shuttle::thread::current(),
            owner_task: me,
            back: cfg.pickup == rt::Pickup::Back,
            // the distribution buggifies apply to top-level calls only: the owner of a nested call
            // must always be able to drain its own batch, or two owners could wait for each other
            one_item: cfg.one_item_per_worker && !inside,
            all_on_one: cfg.all_on_one && !cfg.one_item_per_worker && !inside,
            taken_by: BTreeMap::new(),
        });
        (id, std::mem::take(&mut p.idle))
    });
    trace(|| format!("posted batch {id} n={n} limit={limit} inside={inside} idle={}", idle.len()));
    for t in idle {
        t.unpark();
    }
    loop {
        if inside {
            // a worker waiting for its own nested call executes items of that call
            shuttle::thread::sleep(std::time::Duration::ZERO);
            if let Some(w) = take_work(me, Some(id)) {
                run_work(me, w);
                continue;
            }
        }
        if with_pool(|p| p.batches.iter().find(|b| b.id == id).unwrap().unfinished == 0) {
            break;
        }
        trace(|| format!("owner of batch {id} parks"));
        shuttle::thread::park();
        trace(|| format!("owner of batch {id} woke"));
    }
    let failed = with_pool(|p| {
        let k = p.batches.iter().position(|b| b.id == id).unwrap();
        let b = p.batches.remove(k);
        debug_assert!(b.active == 0 && b.pending.is_empty());
        b.failed
    });
    if let Some(e) = failed {
        resume_unwind(e);
    }
}

pub mod iter {
    use super::*;

    pub trait ParallelIterator: Sized + Sync {
        type Item: Send;

        #[doc(hidden)]
        fn base_len(&self) -> usize;
        #[doc(hidden)]
        fn feed(&self, idx: usize, sink: &mut dyn FnMut(Self::Item));

        fn map<F, R>(self, f: F) -> Map<Self, F>
        where
            F: Fn(Self::Item) -> R + Sync + Send,
            R: Send,
        {
            Map { base: self, f }
        }

        fn flat_map<F, PI>(self, f: F) -> FlatMap<Self, F>
        where
            F: Fn(Self::Item) -> PI + Sync + Send,
            PI: IntoParallelIterator,
        {
            FlatMap { base: self, f }
        }

        fn filter<P>(self, p: P) -> Filter<Self, P>
        where
            P: Fn(&Self::Item) -> bool + Sync + Send,
        {
            Filter { base: self, p }
        }

        fn for_each<F>(self, f: F)
        where
            F: Fn(Self::Item) + Sync + Send,
        {
            let n = self.base_len();
            exec(n, &|i| self.feed(i, &mut |x| f(x)));
        }

        fn collect<C>(self) -> C
        where
            C: FromParallelIterator<Self::Item>,
        {
            C::from_par_iter(self)
        }

        fn count(self) -> usize {
            let v: Vec<Self::Item> = self.collect();
            v.len()
        }
    }

    /// Runs the pipeline and returns the produced items grouped by base index (= in index order).
    fn run_ordered<P: ParallelIterator>(p: P) -> Vec<Vec<P::Item>> {
        let n = p.base_len();
        let slots: Vec<StdMutex<Vec<P::Item>>> = (0..n).map(|_| StdMutex::new(Vec::new())).collect();
        exec(n, &|i| {
            let mut out = Vec::new();
            p.feed(i, &mut |x| out.push(x));
            *slots[i].lock().unwrap() = out;
        });
        slots.into_iter().map(|m| m.into_inner().unwrap()).collect()
    }

    pub trait FromParallelIterator<T: Send> {
        fn from_par_iter<P: ParallelIterator<Item = T>>(p: P) -> Self;
    }

    impl<T: Send> FromParallelIterator<T> for Vec<T> {
        fn from_par_iter<P: ParallelIterator<Item = T>>(p: P) -> Self {
            run_ordered(p).into_iter().flatten().collect()
        }
    }

    impl<K, V, S> FromParallelIterator<(K, V)> for std::collections::HashMap<K, V, S>
    where
        K: Eq + std::hash::Hash + Send,
        V: Send,
        S: std::hash::BuildHasher + Default + Send,
    {
        fn from_par_iter<P: ParallelIterator<Item = (K, V)>>(p: P) -> Self {
            let mut groups = run_ordered(p);
            // rayon gives no insertion-order guarantee for unordered containers
            if rt::par_cfg().map(|c| c.permute_unordered_collect).unwrap_or(false) {
                let n = groups.len();
                for i in (1..n).rev() {
                    let j = rt::shim_below(i as u64 + 1) as usize;
                    groups.swap(i, j);
                }
            }
            let mut m = std::collections::HashMap::with_hasher(S::default());
            for g in groups {
                m.extend(g);
            }
            m
        }
    }

    impl<K, S> FromParallelIterator<K> for std::collections::HashSet<K, S>
    where
        K: Eq + std::hash::Hash + Send,
        S: std::hash::BuildHasher + Default + Send,
    {
        fn from_par_iter<P: ParallelIterator<Item = K>>(p: P) -> Self {
            let groups = run_ordered(p);
            let mut m = std::collections::HashSet::with_hasher(S::default());
            for g in groups {
                m.extend(g);
            }
            m
        }
    }

    pub trait IntoParallelIterator {
        type Iter: ParallelIterator<Item = Self::Item>;
        type Item: Send;
        fn into_par_iter(self) -> Self::Iter;
    }

    pub trait IntoParallelRefIterator<'a> {
        type Iter: ParallelIterator<Item = Self::Item>;
        type Item: Send + 'a;
        fn par_iter(&'a self) -> Self::Iter;
    }

    impl<'a, I: 'a + ?Sized> IntoParallelRefIterator<'a> for I
    where
        &'a I: IntoParallelIterator,
    {
        type Iter = <&'a I as IntoParallelIterator>::Iter;
        type Item = <&'a I as IntoParallelIterator>::Item;
        fn par_iter(&'a self) -> Self::Iter {
            self.into_par_iter()
        }
    }

    // --- sources ---------------------------------------------------------------------------

    pub struct RangeIter<T> {
        start: T,
        len: usize,
    }

    macro_rules! range_impl {
        ($($t:ty),*) => {$(
            impl ParallelIterator for RangeIter<$t> {
                type Item = $t;
                fn base_len(&self) -> usize { self.len }
                fn feed(&self, idx: usize, sink: &mut dyn FnMut($t)) { sink(self.start + idx as $t) }
            }
            impl IntoParallelIterator for Range<$t> {
                type Iter = RangeIter<$t>;
                type Item = $t;
                fn into_par_iter(self) -> RangeIter<$t> {
                    let len = if self.end > self.start { (self.end - self.start) as usize } else { 0 };
                    RangeIter { start: self.start, len }
                }
            }
        )*};
    }
    range_impl!(usize, isize, u32, i32, u64, i64);

    pub struct VecIter<T> {
        items: Vec<StdMutex<Option<T>>>,
    }

    impl<T: Send> ParallelIterator for VecIter<T> {
        type Item = T;
        fn base_len(&self) -> usize {
            self.items.len()
        }
        fn feed(&self, idx: usize, sink: &mut dyn FnMut(T)) {
            let x = self.items[idx].lock().unwrap().take().expect("item consumed twice");
            sink(x)
        }
    }

    impl<T: Send> IntoParallelIterator for Vec<T> {
        type Iter = VecIter<T>;
        type Item = T;
        fn into_par_iter(self) -> VecIter<T> {
            VecIter { items: self.into_iter().map(|x| StdMutex::new(Some(x))).collect() }
        }
    }

    pub struct SliceIter<'a, T> {
        items: &'a [T],
    }

    impl<'a, T: Sync + 'a> ParallelIterator for SliceIter<'a, T> {
        type Item = &'a T;
        fn base_len(&self) -> usize {
            self.items.len()
        }
        fn feed(&self, idx: usize, sink: &mut dyn FnMut(&'a T)) {
            sink(&self.items[idx])
        }
    }

    impl<'a, T: Sync + 'a> IntoParallelIterator for &'a [T] {
        type Iter = SliceIter<'a, T>;
        type Item = &'a T;
        fn into_par_iter(self) -> SliceIter<'a, T> {
            SliceIter { items: self }
        }
    }

    impl<'a, T: Sync + 'a> IntoParallelIterator for &'a Vec<T> {
        type Iter = SliceIter<'a, T>;
        type Item = &'a T;
        fn into_par_iter(self) -> SliceIter<'a, T> {
            SliceIter { items: self.as_slice() }
        }
    }

    // --- adaptors --------------------------------------------------------------------------

    pub struct Map<B, F> {
        base: B,
        f: F,
    }

    impl<B, F, R> ParallelIterator for Map<B, F>
    where
        B: ParallelIterator,
        F: Fn(B::Item) -> R + Sync + Send,
        R: Send,
    {
        type Item = R;
        fn base_len(&self) -> usize {
            self.base.base_len()
        }
        fn feed(&self, idx: usize, sink: &mut dyn FnMut(R)) {
            self.base.feed(idx, &mut |x| sink((self.f)(x)))
        }
    }

    pub struct Filter<B, P> {
        base: B,
        p: P,
    }

    impl<B, P> ParallelIterator for Filter<B, P>
    where
        B: ParallelIterator,
        P: Fn(&B::Item) -> bool + Sync + Send,
    {
        type Item = B::Item;
        fn base_len(&self) -> usize {
            self.base.base_len()
        }
        fn feed(&self, idx: usize, sink: &mut dyn FnMut(B::Item)) {
            self.base.feed(idx, &mut |x| {
                if (self.p)(&x) {
                    sink(x)
                }
            })
        }
    }

    pub struct FlatMap<B, F> {
        base: B,
        f: F,
    }

    impl<B, F, PI> ParallelIterator for FlatMap<B, F>
    where
        B: ParallelIterator,
        F: Fn(B::Item) -> PI + Sync + Send,
        PI: IntoParallelIterator,
    {
        type Item = PI::Item;
        fn base_len(&self) -> usize {
            self.base.base_len()
        }
        fn feed(&self, idx: usize, sink: &mut dyn FnMut(PI::Item)) {
            self.base.feed(idx, &mut |x| {
                let inner = (self.f)(x).into_par_iter();
                for j in 0..inner.base_len() {
                    inner.feed(j, sink);
                }
            })
        }
    }
}
