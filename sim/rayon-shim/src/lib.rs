//! rayon-shim — the subset of rayon's API that taketo1024/yui uses, executed on simulator-owned
//! workers (shuttle tasks).
//!
//! Contract kept as rayon documents it:
//!  * `collect::<Vec<_>>()` of an indexed pipeline preserves index order;
//!  * `for_each` gives no ordering guarantee; items are handed to `k` workers that pull from a
//!    shared queue (front / back / random = stealing), every pick-up is a scheduling point;
//!  * a panic in a job is caught on the worker and re-raised in the caller after all workers
//!    have stopped;
//!  * a worker keeps its identity (hence its `thread_local` slot) for all items it handles within
//!    one parallel call.
//! Outside a simulation (no shuttle execution) everything runs sequentially on the caller.

use std::collections::VecDeque;
use std::ops::Range;
use std::panic::{catch_unwind, resume_unwind, AssertUnwindSafe};
use std::sync::Mutex as StdMutex;

use yui_verif_rt as rt;

pub mod prelude {
    pub use crate::iter::{
        FromParallelIterator, IntoParallelIterator, IntoParallelRefIterator, ParallelIterator,
    };
}

thread_local! {
    // nesting depth of parallel calls *per simulated task* is tracked through a task-indexed map
    static DEPTH: std::cell::RefCell<std::collections::BTreeMap<u32, u32>> =
        const { std::cell::RefCell::new(std::collections::BTreeMap::new()) };
}

fn cur_task() -> Option<u32> {
    rt::current_task()
}

/// Run `job(idx)` for idx in 0..n on simulated workers.
fn exec(n: usize, job: &(dyn Fn(usize) + Sync)) {
    if n == 0 {
        return;
    }
    let (Some(me), Some(cfg)) = (cur_task(), rt::par_cfg()) else {
        for i in 0..n {
            job(i);
        }
        return;
    };

    let depth = DEPTH.with(|d| d.borrow().get(&me).copied().unwrap_or(0));
    let mut k = if depth == 0 { cfg.workers } else { cfg.nested_workers };
    k = k.clamp(1, 16);
    let mut spawn = k.min(n);
    if cfg.one_item_per_worker {
        // every item gets a fresh worker identity (capped, so that shuttle's task table stays small)
        spawn = n.min(64);
    }
    rt::note_par_call(n, spawn);

    let mut order: Vec<usize> = (0..n).collect();
    if cfg.pickup == rt::Pickup::Random {
        // a random pick from the queue == a front pick from a shuffled queue
        for i in (1..n).rev() {
            let j = rt::shim_below(i as u64 + 1) as usize;
            order.swap(i, j);
        }
    }
    let queue = StdMutex::new(VecDeque::from(order));
    let failed: StdMutex<Option<Box<dyn std::any::Any + Send>>> = StdMutex::new(None);
    let all_on_one = cfg.all_on_one && !cfg.one_item_per_worker;
    let one_item = cfg.one_item_per_worker && n <= 64;
    let back = cfg.pickup == rt::Pickup::Back;

    let worker = |widx: usize| {
        let me = cur_task().unwrap();
        DEPTH.with(|d| d.borrow_mut().insert(me, depth + 1));
        loop {
            // pick-up is a scheduling point: which worker gets which item is the scheduler's call
            shuttle::thread::yield_now();
            if all_on_one && widx != 0 {
                break;
            }
            if failed.lock().unwrap().is_some() {
                break;
            }
            let next = {
                let mut q = queue.lock().unwrap();
                if back { q.pop_back() } else { q.pop_front() }
            };
            let Some(i) = next else { break };
            rt::note_pickup(me, i);
            rt::fault_point("par.task_start");
            if let Err(e) = catch_unwind(AssertUnwindSafe(|| job(i))) {
                // the unwinding is over: waiters of locks released during it may now be woken
                rt::sync::flush_wakeups();
                let mut f = failed.lock().unwrap();
                if f.is_none() {
                    *f = Some(e);
                }
                break;
            }
            if one_item {
                break;
            }
        }
        DEPTH.with(|d| d.borrow_mut().remove(&me));
    };

    shuttle::thread::scope(|s| {
        for w in 0..spawn {
            let worker = &worker;
            let failed = &failed;
            s.spawn(move || {
                // an injected fault at task start is itself caught like a job panic
                if let Err(e) = catch_unwind(AssertUnwindSafe(|| worker(w))) {
                    rt::sync::flush_wakeups();
                    let mut f = failed.lock().unwrap();
                    if f.is_none() {
                        *f = Some(e);
                    }
                }
            });
        }
    });

    if let Some(e) = failed.into_inner().unwrap() {
        resume_unwind(e);
    }
    // items left in the queue can only remain after a failure
    debug_assert!(queue.lock().unwrap().is_empty());
}

pub mod iter {
    use super::*;

    pub trait ParallelIterator: Sized + Sync {
        type Item: Send;

        #[doc(hidden)]
        fn base_len(&self) -> usize;
        #[doc(hidden)]
        fn feed(&self, idx: usize, sink: &mut dyn FnMut(Self::Item));

        fn map<F, R>(self, f: F) -> Map<Self, F>
        where
            F: Fn(Self::Item) -> R + Sync + Send,
            R: Send,
        {
            Map { base: self, f }
        }

        fn flat_map<F, PI>(self, f: F) -> FlatMap<Self, F>
        where
            F: Fn(Self::Item) -> PI + Sync + Send,
            PI: IntoParallelIterator,
        {
            FlatMap { base: self, f }
        }

        fn filter<P>(self, p: P) -> Filter<Self, P>
        where
            P: Fn(&Self::Item) -> bool + Sync + Send,
        {
            Filter { base: self, p }
        }

        fn for_each<F>(self, f: F)
        where
            F: Fn(Self::Item) + Sync + Send,
        {
            let n = self.base_len();
            exec(n, &|i| self.feed(i, &mut |x| f(x)));
        }

        fn collect<C>(self) -> C
        where
            C: FromParallelIterator<Self::Item>,
        {
            C::from_par_iter(self)
        }

        fn count(self) -> usize {
            let v: Vec<Self::Item> = self.collect();
            v.len()
        }
    }

    /// Runs the pipeline and returns the produced items grouped by base index (= in index order).
    fn run_ordered<P: ParallelIterator>(p: P) -> Vec<Vec<P::Item>> {
        let n = p.base_len();
        let slots: Vec<StdMutex<Vec<P::Item>>> = (0..n).map(|_| StdMutex::new(Vec::new())).collect();
        exec(n, &|i| {
            let mut out = Vec::new();
            p.feed(i, &mut |x| out.push(x));
            *slots[i].lock().unwrap() = out;
        });
        slots.into_iter().map(|m| m.into_inner().unwrap()).collect()
    }

    pub trait FromParallelIterator<T: Send> {
        fn from_par_iter<P: ParallelIterator<Item = T>>(p: P) -> Self;
    }

    impl<T: Send> FromParallelIterator<T> for Vec<T> {
        fn from_par_iter<P: ParallelIterator<Item = T>>(p: P) -> Self {
            run_ordered(p).into_iter().flatten().collect()
        }
    }

    impl<K, V, S> FromParallelIterator<(K, V)> for std::collections::HashMap<K, V, S>
    where
        K: Eq + std::hash::Hash + Send,
        V: Send,
        S: std::hash::BuildHasher + Default + Send,
    {
        fn from_par_iter<P: ParallelIterator<Item = (K, V)>>(p: P) -> Self {
            let mut groups = run_ordered(p);
            // rayon gives no insertion-order guarantee for unordered containers
            if rt::par_cfg().map(|c| c.permute_unordered_collect).unwrap_or(false) {
                let n = groups.len();
                for i in (1..n).rev() {
                    let j = rt::shim_below(i as u64 + 1) as usize;
                    groups.swap(i, j);
                }
            }
            let mut m = std::collections::HashMap::with_hasher(S::default());
            for g in groups {
                m.extend(g);
            }
            m
        }
    }

    impl<K, S> FromParallelIterator<K> for std::collections::HashSet<K, S>
    where
        K: Eq + std::hash::Hash + Send,
        S: std::hash::BuildHasher + Default + Send,
    {
        fn from_par_iter<P: ParallelIterator<Item = K>>(p: P) -> Self {
            let groups = run_ordered(p);
            let mut m = std::collections::HashSet::with_hasher(S::default());
            for g in groups {
                m.extend(g);
            }
            m
        }
    }

    pub trait IntoParallelIterator {
        type Iter: ParallelIterator<Item = Self::Item>;
        type Item: Send;
        fn into_par_iter(self) -> Self::Iter;
    }

    pub trait IntoParallelRefIterator<'a> {
        type Iter: ParallelIterator<Item = Self::Item>;
        type Item: Send + 'a;
        fn par_iter(&'a self) -> Self::Iter;
    }

    impl<'a, I: 'a + ?Sized> IntoParallelRefIterator<'a> for I
    where
        &'a I: IntoParallelIterator,
    {
        type Iter = <&'a I as IntoParallelIterator>::Iter;
        type Item = <&'a I as IntoParallelIterator>::Item;
        fn par_iter(&'a self) -> Self::Iter {
            self.into_par_iter()
        }
    }

    // --- sources ---------------------------------------------------------------------------

    pub struct RangeIter<T> {
        start: T,
        len: usize,
    }

    macro_rules! range_impl {
        ($($t:ty),*) => {$(
            impl ParallelIterator for RangeIter<$t> {
                type Item = $t;
                fn base_len(&self) -> usize { self.len }
                fn feed(&self, idx: usize, sink: &mut dyn FnMut($t)) { sink(self.start + idx as $t) }
            }
            impl IntoParallelIterator for Range<$t> {
                type Iter = RangeIter<$t>;
                type Item = $t;
                fn into_par_iter(self) -> RangeIter<$t> {
                    let len = if self.end > self.start { (self.end - self.start) as usize } else { 0 };
                    RangeIter { start: self.start, len }
                }
            }
        )*};
    }
    range_impl!(usize, isize, u32, i32, u64, i64);

    pub struct VecIter<T> {
        items: Vec<StdMutex<Option<T>>>,
    }

    impl<T: Send> ParallelIterator for VecIter<T> {
        type Item = T;
        fn base_len(&self) -> usize {
            self.items.len()
        }
        fn feed(&self, idx: usize, sink: &mut dyn FnMut(T)) {
            let x = self.items[idx].lock().unwrap().take().expect("item consumed twice");
            sink(x)
        }
    }

    impl<T: Send> IntoParallelIterator for Vec<T> {
        type Iter = VecIter<T>;
        type Item = T;
        fn into_par_iter(self) -> VecIter<T> {
            VecIter { items: self.into_iter().map(|x| StdMutex::new(Some(x))).collect() }
        }
    }

    pub struct SliceIter<'a, T> {
        items: &'a [T],
    }

    impl<'a, T: Sync + 'a> ParallelIterator for SliceIter<'a, T> {
        type Item = &'a T;
        fn base_len(&self) -> usize {
            self.items.len()
        }
        fn feed(&self, idx: usize, sink: &mut dyn FnMut(&'a T)) {
            sink(&self.items[idx])
        }
    }

    impl<'a, T: Sync + 'a> IntoParallelIterator for &'a [T] {
        type Iter = SliceIter<'a, T>;
        type Item = &'a T;
        fn into_par_iter(self) -> SliceIter<'a, T> {
            SliceIter { items: self }
        }
    }

    impl<'a, T: Sync + 'a> IntoParallelIterator for &'a Vec<T> {
        type Iter = SliceIter<'a, T>;
        type Item = &'a T;
        fn into_par_iter(self) -> SliceIter<'a, T> {
            SliceIter { items: self.as_slice() }
        }
    }

    // --- adaptors --------------------------------------------------------------------------

    pub struct Map<B, F> {
        base: B,
        f: F,
    }

    impl<B, F, R> ParallelIterator for Map<B, F>
    where
        B: ParallelIterator,
        F: Fn(B::Item) -> R + Sync + Send,
        R: Send,
    {
        type Item = R;
        fn base_len(&self) -> usize {
            self.base.base_len()
        }
        fn feed(&self, idx: usize, sink: &mut dyn FnMut(R)) {
            self.base.feed(idx, &mut |x| sink((self.f)(x)))
        }
    }

    pub struct Filter<B, P> {
        base: B,
        p: P,
    }

    impl<B, P> ParallelIterator for Filter<B, P>
    where
        B: ParallelIterator,
        P: Fn(&B::Item) -> bool + Sync + Send,
    {
        type Item = B::Item;
        fn base_len(&self) -> usize {
            self.base.base_len()
        }
        fn feed(&self, idx: usize, sink: &mut dyn FnMut(B::Item)) {
            self.base.feed(idx, &mut |x| {
                if (self.p)(&x) {
                    sink(x)
                }
            })
        }
    }

    pub struct FlatMap<B, F> {
        base: B,
        f: F,
    }

    impl<B, F, PI> ParallelIterator for FlatMap<B, F>
    where
        B: ParallelIterator,
        F: Fn(B::Item) -> PI + Sync + Send,
        PI: IntoParallelIterator,
    {
        type Item = PI::Item;
        fn base_len(&self) -> usize {
            self.base.base_len()
        }
        fn feed(&self, idx: usize, sink: &mut dyn FnMut(PI::Item)) {
            self.base.feed(idx, &mut |x| {
                let inner = (self.f)(x).into_par_iter();
                for j in 0..inner.base_len() {
                    inner.feed(j, sink);
                }
            })
        }
    }
}
