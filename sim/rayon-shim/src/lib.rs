//! rayon-shim — the subset of rayon's API that taketo1024/yui uses, executed on simulator-owned
//! workers (shuttle tasks).
//!
//! Contract kept as rayon documents it:
//!  * `collect::<Vec<_>>()` of an indexed pipeline preserves index order;
//!  * `for_each` gives no ordering guarantee; items are handed to `k` workers that pull from a
//!    shared queue (front / back / random = stealing), every pick-up is a scheduling point;
//!  * a panic in a job is caught on the worker and re-raised in the caller after all workers
//!    have stopped;
//!  * a worker keeps its identity (hence its `thread_local` slot) for all items it handles within
//!    one parallel call.
//! Outside a simulation (no shuttle execution) everything runs sequentially on the caller.

use std::collections::VecDeque;
use std::ops::Range;
use std::panic::{catch_unwind, resume_unwind, AssertUnwindSafe};
/// All simulated tasks of a run share one OS thread, so these mutexes can never be legitimately
/// contended; contention means a guard was held across a scheduling point (a shim bug) and would
/// otherwise show up as an OS-level self-deadlock.
pub(crate) struct StdMutex<T>(std::sync::Mutex<T>);
impl<T> StdMutex<T> {
    pub fn new(t: T) -> Self { StdMutex(std::sync::Mutex::new(t)) }
    #[track_caller]
    pub fn lock(&self) -> std::sync::LockResult<std::sync::MutexGuard<'_, T>> {
        match self.0.try_lock() {
            Ok(g) => Ok(g),
            Err(std::sync::TryLockError::Poisoned(p)) => Err(p),
            Err(std::sync::TryLockError::WouldBlock) => panic!("rayon-shim: internal mutex held across a scheduling point"),
        }
    }
    pub fn into_inner(self) -> std::sync::LockResult<T> { self.0.into_inner() }
}

use yui_verif_rt as rt;

pub mod prelude {
    pub use crate::iter::{
        FromParallelIterator, IndexedParallelIterator, IntoParallelIterator, IntoParallelRefIterator,
        IntoParallelRefMutIterator, ParallelBridge, ParallelIterator, ParallelIteratorRefExt, ParallelSlice,
        ParallelSliceMut,
    };
}

// ---------------------------------------------------------------------------------------------
// the simulated thread pool
// ---------------------------------------------------------------------------------------------
//
// Like rayon, the shim owns ONE pool of worker threads per process (here: per simulated run);
// the workers are simulated tasks that live until the run ends, so a worker keeps its identity
// across parallel calls.  A parallel call posts a batch of items; idle workers pull items from
// posted batches (pick-up = scheduling point).  A call issued by an outside thread blocks until
// its batch is complete; a call issued from inside a worker (nested parallelism) makes that
// worker execute items of its own batch while it waits, as a rayon worker does.

use std::any::Any;
use std::cell::RefCell;
use std::collections::{BTreeMap, BTreeSet};

type Job = *const (dyn Fn(usize) + Sync);

struct Batch {
    id: u64,
    job: Job,
    pending: VecDeque<usize>,
    unfinished: usize,
    limit: usize,
    active: usize,
    failed: Option<Box<dyn Any + Send>>,
    owner: shuttle::thread::Thread,
    owner_task: u32,
    back: bool,
    one_item: bool,
    all_on_one: bool,
    taken_by: BTreeMap<u32, usize>,
}

impl Batch {
    fn may_take(&self, me: u32, pool_size: usize) -> bool {
        if self.pending.is_empty() || self.active >= self.limit {
            return false;
        }
        if self.all_on_one && !self.taken_by.is_empty() && !self.taken_by.contains_key(&me) {
            return false;
        }
        if self.one_item {
            // every item on a different worker as long as fresh workers exist
            let mine = self.taken_by.get(&me).copied().unwrap_or(0);
            let min_round = if self.taken_by.len() < pool_size.min(self.limit) { 0 } else { self.taken_by.values().copied().min().unwrap_or(0) };
            if mine > min_round {
                return false;
            }
        }
        true
    }
}

struct Pool {
    size: usize,
    workers: BTreeSet<u32>,
    threads: Vec<shuttle::thread::Thread>,
    handles: Vec<shuttle::thread::JoinHandle<()>>,
    idle: Vec<shuttle::thread::Thread>,
    batches: Vec<Batch>,
    shutdown: bool,
    next_id: u64,
}

thread_local! {
    static POOL: RefCell<Option<Pool>> = const { RefCell::new(None) };
}

fn cur_task() -> Option<u32> {
    rt::current_task()
}

fn trace(msg: impl FnOnce() -> String) {
    if std::env::var_os("VERIF_SHIM_TRACE").is_some() {
        eprintln!("[shim t{:?}] {}", cur_task(), msg());
    }
}

fn with_pool<T>(f: impl FnOnce(&mut Pool) -> T) -> T {
    POOL.with(|p| f(p.borrow_mut().as_mut().expect("pool exists")))
}

/// one unit of work handed to a worker
struct Work {
    batch: u64,
    item: usize,
    job: Job,
}

thread_local! {
    /// how many stolen items are stacked on the current simulated worker (bounded, the simulated
    /// stacks are small)
    static STEAL_DEPTH: RefCell<BTreeMap<u32, usize>> = const { RefCell::new(BTreeMap::new()) };
}

fn take_work(me: u32, only_batch: Option<u64>) -> Option<Work> {
    take_work_x(me, only_batch, None)
}

fn take_work_x(me: u32, only_batch: Option<u64>, not_batch: Option<u64>) -> Option<Work> {
    with_pool(|p| {
        let size = p.size;
        // newest batch first (a rayon worker prefers the most recently pushed job)
        let n = p.batches.len();
        let mut order: Vec<usize> = (0..n).rev().collect();
        if only_batch.is_none() && n > 1 && rt::shim_below(3) == 0 {
            let k = rt::shim_below(n as u64) as usize;
            order.swap(0, k);
        }
        for bi in order {
            let b = &mut p.batches[bi];
            if let Some(ob) = only_batch {
                if b.id != ob { continue; }
            }
            if not_batch == Some(b.id) { continue; }
            if !b.may_take(me, size) { continue; }
            let item = if b.back { b.pending.pop_back() } else { b.pending.pop_front() }.unwrap();
            b.active += 1;
            *b.taken_by.entry(me).or_insert(0) += 1;
            trace(|| format!("take batch {} item {item} (pending {}, unfinished {})", b.id, b.pending.len(), b.unfinished));
            return Some(Work { batch: b.id, item, job: b.job });
        }
        None
    })
}

fn run_work(me: u32, w: Work) {
    rt::note_pickup(me, w.item);
    // the item is taken but not yet done: others (the owner looking for the rest of its call, workers
    // that respect the concurrency limit) can observe the pool in this state
    shuttle::thread::sleep(std::time::Duration::ZERO);
    let job: &(dyn Fn(usize) + Sync) = unsafe { &*w.job };
    let res = catch_unwind(AssertUnwindSafe(|| {
        rt::fault_point("par.task_start");
        job(w.item)
    }));
    if res.is_err() {
        // the unwinding is over: waiters of locks released during it may now be woken
        rt::sync::flush_wakeups();
    }
    let wake = with_pool(|p| {
        let b = p.batches.iter_mut().find(|b| b.id == w.batch).expect("batch alive while items are active");
        b.active -= 1;
        b.unfinished -= 1;
        if let Err(e) = res {
            if b.failed.is_none() { b.failed = Some(e); }
            // like rayon, stop handing out the remaining items of a failed call
            b.unfinished -= b.pending.len();
            b.pending.clear();
        }
        let wake_owner = (b.unfinished == 0 && b.owner_task != me).then(|| b.owner.clone());
        // a finished item can make the batch takeable again for workers that had to stand back
        // (concurrency limit, one-item-per-worker fairness): let the idle ones look again
        let idle = if b.pending.is_empty() { vec![] } else { std::mem::take(&mut p.idle) };
        (wake_owner, idle)
    });
    let (wake, idle) = wake;
    for t in idle {
        t.unpark();
    }
    trace(|| format!("done batch {} item {} wake_owner={}", w.batch, w.item, wake.is_some()));
    if let Some(t) = wake {
        t.unpark();
    }
}

fn worker_main() {
    let me = cur_task().unwrap();
    with_pool(|p| p.workers.insert(me));
    loop {
        // pick-up is a scheduling point: which worker gets which item is the scheduler's call
        shuttle::thread::sleep(std::time::Duration::ZERO);
        match take_work(me, None) {
            Some(w) => run_work(me, w),
            None => {
                if with_pool(|p| p.shutdown) { break; }
                with_pool(|p| p.idle.push(shuttle::thread::current()));
                trace(|| "idle -> park".to_string());
                shuttle::thread::park();
                trace(|| "woke".to_string());
            }
        }
    }
}

fn ensure_pool(size: usize) {
    let exists = POOL.with(|p| p.borrow().is_some());
    if exists { return; }
    POOL.with(|p| *p.borrow_mut() = Some(Pool { size, workers: BTreeSet::new(), threads: vec![], handles: vec![], idle: vec![], batches: vec![], shutdown: false, next_id: 0 }));
    for _ in 0..size {
        let h = shuttle::thread::spawn(worker_main);
        with_pool(|p| { p.threads.push(h.thread().clone()); p.handles.push(h); });
    }
}

/// Ends the simulated pool; must be called (by the harness) inside the simulation when the body is
/// done, otherwise the parked workers look like a deadlock to the engine.
pub fn shim_shutdown_pool() {
    let Some((threads, handles)) = POOL.with(|p| p.borrow_mut().as_mut().map(|p| { p.shutdown = true; (p.threads.clone(), std::mem::take(&mut p.handles)) })) else { return };
    for t in threads { t.unpark(); }
    for h in handles { let _ = h.join(); }
    POOL.with(|p| *p.borrow_mut() = None);
    STEAL_DEPTH.with(|d| d.borrow_mut().clear());
}

/// Run `job(idx)` for idx in 0..n on the simulated pool.
fn exec(n: usize, job: &(dyn Fn(usize) + Sync)) {
    if n == 0 {
        return;
    }
    let (Some(me), Some(cfg)) = (cur_task(), rt::par_cfg()) else {
        for i in 0..n {
            job(i);
        }
        return;
    };
    let pool_size = cfg.workers.clamp(1, 16);
    ensure_pool(pool_size);
    let inside = with_pool(|p| p.workers.contains(&me));
    let limit = if inside { cfg.nested_workers.clamp(1, 16) } else { pool_size };
    rt::note_par_call(n, limit.min(n));

    let mut order: VecDeque<usize> = (0..n).collect();
    if cfg.pickup == rt::Pickup::Random {
        let v = order.make_contiguous();
        for i in (1..n).rev() {
            let j = rt::shim_below(i as u64 + 1) as usize;
            v.swap(i, j);
        }
    }
    let job_ptr: Job = unsafe { std::mem::transmute::<&(dyn Fn(usize) + Sync), Job>(job) };
    let (id, idle) = with_pool(|p| {
        let id = p.next_id;
        p.next_id += 1;
        p.batches.push(Batch {
            id,
            job: job_ptr,
            pending: order,
            unfinished: n,
            limit,
            active: 0,
            failed: None,
            owner: shuttle::thread::current(),
            owner_task: me,
            back: cfg.pickup == rt::Pickup::Back,
            // the distribution buggifies apply to top-level calls only: the owner of a nested call
            // must always be able to drain its own batch, or two owners could wait for each other
            one_item: cfg.one_item_per_worker && !inside,
            all_on_one: cfg.all_on_one && !cfg.one_item_per_worker && !inside,
            taken_by: BTreeMap::new(),
        });
        (id, std::mem::take(&mut p.idle))
    });
    trace(|| format!("posted batch {id} n={n} limit={limit} inside={inside} idle={}", idle.len()));
    for t in idle {
        t.unpark();
    }
    loop {
        if inside {
            // a worker waiting for its own nested call executes items of that call
            shuttle::thread::sleep(std::time::Duration::ZERO);
            if let Some(w) = take_work(me, Some(id)) {
                run_work(me, w);
                continue;
            }
            // nothing of the own call left to run, but items of it are still running elsewhere: a
            // rayon worker steals any other pending job meanwhile and runs it on top of this frame
            let unfinished = with_pool(|p| p.batches.iter().find(|b| b.id == id).unwrap().unfinished);
            let depth = STEAL_DEPTH.with(|d| d.borrow().get(&me).copied().unwrap_or(0));
            if cfg.steal_while_waiting && unfinished > 0 && depth < 3 {
                if let Some(w) = take_work_x(me, None, Some(id)) {
                    rt::probe("shim.steal_while_waiting", depth as u64, 0);
                    STEAL_DEPTH.with(|d| *d.borrow_mut().entry(me).or_insert(0) += 1);
                    run_work(me, w);
                    STEAL_DEPTH.with(|d| *d.borrow_mut().entry(me).or_insert(1) -= 1);
                    continue;
                }
            }
        }
        if with_pool(|p| p.batches.iter().find(|b| b.id == id).unwrap().unfinished == 0) {
            break;
        }
        trace(|| format!("owner of batch {id} parks"));
        shuttle::thread::park();
        trace(|| format!("owner of batch {id} woke"));
    }
    let failed = with_pool(|p| {
        let k = p.batches.iter().position(|b| b.id == id).unwrap();
        let b = p.batches.remove(k);
        debug_assert!(b.active == 0 && b.pending.is_empty());
        b.failed
    });
    if let Some(e) = failed {
        resume_unwind(e);
    }
}

pub mod slice {
    pub use crate::iter::{ParallelSlice, ParallelSliceMut};
}

/// `rayon::join`: both closures become items of one two-item parallel call
pub fn join<A, B, RA, RB>(a: A, b: B) -> (RA, RB)
where
    A: FnOnce() -> RA + Send,
    B: FnOnce() -> RB + Send,
    RA: Send,
    RB: Send,
{
    let fa = StdMutex::new(Some(a));
    let fb = StdMutex::new(Some(b));
    let ra: StdMutex<Option<RA>> = StdMutex::new(None);
    let rb: StdMutex<Option<RB>> = StdMutex::new(None);
    exec(2, &|i| {
        if i == 0 {
            let f = fa.lock().unwrap().take().unwrap();
            let r = f();
            *ra.lock().unwrap() = Some(r);
        } else {
            let f = fb.lock().unwrap().take().unwrap();
            let r = f();
            *rb.lock().unwrap() = Some(r);
        }
    });
    (ra.into_inner().unwrap().unwrap(), rb.into_inner().unwrap().unwrap())
}

pub fn current_num_threads() -> usize {
    rt::par_cfg().map(|c| c.workers.clamp(1, 16)).unwrap_or(1)
}

pub fn current_thread_index() -> Option<usize> {
    let me = cur_task()?;
    POOL.with(|p| p.borrow().as_ref().and_then(|p| p.workers.iter().position(|&w| w == me)))
}

/// The simulated pool is configured by the run, not by the program.
#[derive(Default, Debug)]
pub struct ThreadPoolBuilder;
#[derive(Debug)]
pub struct ThreadPoolBuildError;
impl std::fmt::Display for ThreadPoolBuildError {
    fn fmt(&self, f: &mut std::fmt::Formatter<'_>) -> std::fmt::Result { f.write_str("thread pool build error") }
}
impl std::error::Error for ThreadPoolBuildError {}
#[derive(Debug)]
pub struct ThreadPool;
impl ThreadPoolBuilder {
    pub fn new() -> Self { ThreadPoolBuilder }
    pub fn num_threads(self, _n: usize) -> Self { self }
    pub fn stack_size(self, _n: usize) -> Self { self }
    pub fn thread_name<F: FnMut(usize) -> String>(self, _f: F) -> Self { self }
    pub fn build_global(self) -> Result<(), ThreadPoolBuildError> { Ok(()) }
    pub fn build(self) -> Result<ThreadPool, ThreadPoolBuildError> { Ok(ThreadPool) }
}
impl ThreadPool {
    pub fn install<R: Send, F: FnOnce() -> R + Send>(&self, f: F) -> R { f() }
    pub fn current_num_threads(&self) -> usize { current_num_threads() }
}

pub mod iter {
    use super::*;

    pub trait ParallelIterator: Sized + Sync {
        type Item: Send;

        #[doc(hidden)]
        fn base_len(&self) -> usize;
        #[doc(hidden)]
        fn feed(&self, idx: usize, sink: &mut dyn FnMut(Self::Item));

        fn map<F, R>(self, f: F) -> Map<Self, F>
        where
            F: Fn(Self::Item) -> R + Sync + Send,
            R: Send,
        {
            Map { base: self, f }
        }

        fn flat_map<F, PI>(self, f: F) -> FlatMap<Self, F>
        where
            F: Fn(Self::Item) -> PI + Sync + Send,
            PI: IntoParallelIterator,
        {
            FlatMap { base: self, f }
        }

        fn filter<P>(self, p: P) -> Filter<Self, P>
        where
            P: Fn(&Self::Item) -> bool + Sync + Send,
        {
            Filter { base: self, p }
        }

        fn for_each<F>(self, f: F)
        where
            F: Fn(Self::Item) + Sync + Send,
        {
            let n = self.base_len();
            exec(n, &|i| self.feed(i, &mut |x| f(x)));
        }

        fn collect<C>(self) -> C
        where
            C: FromParallelIterator<Self::Item>,
        {
            C::from_par_iter(self)
        }

        fn count(self) -> usize {
            let v: Vec<Self::Item> = self.collect();
            v.len()
        }

        fn filter_map<F, R>(self, f: F) -> FilterMap<Self, F>
        where
            F: Fn(Self::Item) -> Option<R> + Sync + Send,
            R: Send,
        {
            FilterMap { base: self, f }
        }

        fn inspect<F>(self, f: F) -> Inspect<Self, F>
        where
            F: Fn(&Self::Item) + Sync + Send,
        {
            Inspect { base: self, f }
        }

        fn flat_map_iter<F, I>(self, f: F) -> FlatMapIter<Self, F>
        where
            F: Fn(Self::Item) -> I + Sync + Send,
            I: IntoIterator,
            I::Item: Send,
        {
            FlatMapIter { base: self, f }
        }

        fn map_with<T, F, R>(self, init: T, f: F) -> MapWith<Self, T, F>
        where
            T: Clone + Send + Sync,
            F: Fn(&mut T, Self::Item) -> R + Sync + Send,
            R: Send,
        {
            MapWith { base: self, init, f }
        }

        fn for_each_with<T, F>(self, init: T, f: F)
        where
            T: Clone + Send + Sync,
            F: Fn(&mut T, Self::Item) + Sync + Send,
        {
            let n = self.base_len();
            exec(n, &|i| {
                let mut t = init.clone();
                self.feed(i, &mut |x| f(&mut t, x))
            });
        }

        /// enumerate / zip / chunks are only meaningful on pipelines that yield exactly one item
        /// per index (rayon's IndexedParallelIterator); this shim does not separate the two traits
        fn enumerate(self) -> Enumerate<Self> {
            Enumerate { base: self }
        }

        fn zip<Z: IntoParallelIterator>(self, other: Z) -> Zip<Self, Z::Iter> {
            Zip { a: self, b: other.into_par_iter() }
        }

        fn chunks(self, size: usize) -> Chunks<Self> {
            assert!(size > 0);
            Chunks { base: self, size }
        }

        fn with_min_len(self, _n: usize) -> Self { self }
        fn with_max_len(self, _n: usize) -> Self { self }

        fn fold<T, ID, F>(self, identity: ID, op: F) -> Fold<Self, ID, F>
        where
            T: Send,
            ID: Fn() -> T + Sync + Send,
            F: Fn(T, Self::Item) -> T + Sync + Send,
        {
            Fold { base: self, identity, op }
        }

        fn reduce<ID, OP>(self, identity: ID, op: OP) -> Self::Item
        where
            ID: Fn() -> Self::Item + Sync + Send,
            OP: Fn(Self::Item, Self::Item) -> Self::Item + Sync + Send,
        {
            let items: Vec<Self::Item> = self.collect();
            items.into_iter().fold(identity(), |a, b| op(a, b))
        }

        fn reduce_with<OP>(self, op: OP) -> Option<Self::Item>
        where
            OP: Fn(Self::Item, Self::Item) -> Self::Item + Sync + Send,
        {
            let items: Vec<Self::Item> = self.collect();
            items.into_iter().reduce(|a, b| op(a, b))
        }

        fn sum<S>(self) -> S
        where
            S: Send + std::iter::Sum<Self::Item>,
        {
            let items: Vec<Self::Item> = self.collect();
            items.into_iter().sum()
        }

        fn product<P>(self) -> P
        where
            P: Send + std::iter::Product<Self::Item>,
        {
            let items: Vec<Self::Item> = self.collect();
            items.into_iter().product()
        }

        fn min(self) -> Option<Self::Item> where Self::Item: Ord {
            let items: Vec<Self::Item> = self.collect();
            items.into_iter().min()
        }
        fn max(self) -> Option<Self::Item> where Self::Item: Ord {
            let items: Vec<Self::Item> = self.collect();
            items.into_iter().max()
        }
        fn min_by_key<K: Ord + Send, F: Fn(&Self::Item) -> K + Sync + Send>(self, f: F) -> Option<Self::Item> {
            let items: Vec<Self::Item> = self.collect();
            items.into_iter().min_by_key(|x| f(x))
        }
        fn max_by_key<K: Ord + Send, F: Fn(&Self::Item) -> K + Sync + Send>(self, f: F) -> Option<Self::Item> {
            let items: Vec<Self::Item> = self.collect();
            items.into_iter().max_by_key(|x| f(x))
        }
        fn min_by<F: Fn(&Self::Item, &Self::Item) -> std::cmp::Ordering + Sync + Send>(self, f: F) -> Option<Self::Item> {
            let items: Vec<Self::Item> = self.collect();
            items.into_iter().min_by(|a, b| f(a, b))
        }
        fn max_by<F: Fn(&Self::Item, &Self::Item) -> std::cmp::Ordering + Sync + Send>(self, f: F) -> Option<Self::Item> {
            let items: Vec<Self::Item> = self.collect();
            items.into_iter().max_by(|a, b| f(a, b))
        }
        fn any<P: Fn(Self::Item) -> bool + Sync + Send>(self, p: P) -> bool {
            let items: Vec<bool> = self.map(p).collect();
            items.into_iter().any(|b| b)
        }
        fn all<P: Fn(Self::Item) -> bool + Sync + Send>(self, p: P) -> bool {
            let items: Vec<bool> = self.map(p).collect();
            items.into_iter().all(|b| b)
        }
        fn find_any<P: Fn(&Self::Item) -> bool + Sync + Send>(self, p: P) -> Option<Self::Item> {
            // "any" match: the shim returns one chosen by the run's PRNG among the matches
            let mut items: Vec<Self::Item> = self.filter(p).collect();
            if items.is_empty() { None } else { let k = rt::shim_below(items.len() as u64) as usize; Some(items.swap_remove(k)) }
        }
        fn find_first<P: Fn(&Self::Item) -> bool + Sync + Send>(self, p: P) -> Option<Self::Item> {
            let items: Vec<Self::Item> = self.filter(p).collect();
            items.into_iter().next()
        }
        fn find_last<P: Fn(&Self::Item) -> bool + Sync + Send>(self, p: P) -> Option<Self::Item> {
            let items: Vec<Self::Item> = self.filter(p).collect();
            items.into_iter().last()
        }
        fn try_for_each<F, E>(self, f: F) -> Result<(), E>
        where
            F: Fn(Self::Item) -> Result<(), E> + Sync + Send,
            E: Send,
        {
            let items: Vec<Result<(), E>> = self.map(f).collect();
            items.into_iter().collect()
        }
        fn unzip<A, B, FA, FB>(self) -> (FA, FB)
        where
            Self: ParallelIterator<Item = (A, B)>,
            A: Send, B: Send,
            FA: Default + Extend<A>, FB: Default + Extend<B>,
        {
            let items: Vec<(A, B)> = self.collect();
            items.into_iter().unzip()
        }
    }

    /// `cloned` / `copied` for pipelines over references
    pub trait ParallelIteratorRefExt<'a, T: 'a + Send + Sync>: ParallelIterator<Item = &'a T> {
        fn cloned(self) -> Map<Self, fn(&'a T) -> T> where T: Clone {
            self.map(<T as Clone>::clone as fn(&'a T) -> T)
        }
        fn copied(self) -> Map<Self, fn(&'a T) -> T> where T: Copy {
            fn cp<T: Copy>(x: &T) -> T { *x }
            self.map(cp::<T> as fn(&'a T) -> T)
        }
    }
    impl<'a, T: 'a + Send + Sync, P: ParallelIterator<Item = &'a T>> ParallelIteratorRefExt<'a, T> for P {}

    pub use self::ParallelIterator as IndexedParallelIterator;

    /// Runs the pipeline and returns the produced items grouped by base index (= in index order).
    fn run_ordered<P: ParallelIterator>(p: P) -> Vec<Vec<P::Item>> {
        let n = p.base_len();
        let slots: Vec<StdMutex<Vec<P::Item>>> = (0..n).map(|_| StdMutex::new(Vec::new())).collect();
        exec(n, &|i| {
            let mut out = Vec::new();
            p.feed(i, &mut |x| out.push(x));
            *slots[i].lock().unwrap() = out;
        });
        slots.into_iter().map(|m| m.into_inner().unwrap()).collect()
    }

    pub trait FromParallelIterator<T: Send> {
        fn from_par_iter<P: ParallelIterator<Item = T>>(p: P) -> Self;
    }

    impl<T: Send> FromParallelIterator<T> for Vec<T> {
        fn from_par_iter<P: ParallelIterator<Item = T>>(p: P) -> Self {
            run_ordered(p).into_iter().flatten().collect()
        }
    }

    impl<K, V, S> FromParallelIterator<(K, V)> for std::collections::HashMap<K, V, S>
    where
        K: Eq + std::hash::Hash + Send,
        V: Send,
        S: std::hash::BuildHasher + Default + Send,
    {
        fn from_par_iter<P: ParallelIterator<Item = (K, V)>>(p: P) -> Self {
            let mut groups = run_ordered(p);
            // rayon gives no insertion-order guarantee for unordered containers
            if rt::par_cfg().map(|c| c.permute_unordered_collect).unwrap_or(false) {
                let n = groups.len();
                for i in (1..n).rev() {
                    let j = rt::shim_below(i as u64 + 1) as usize;
                    groups.swap(i, j);
                }
            }
            let mut m = std::collections::HashMap::with_hasher(S::default());
            for g in groups {
                m.extend(g);
            }
            m
        }
    }

    impl<K, S> FromParallelIterator<K> for std::collections::HashSet<K, S>
    where
        K: Eq + std::hash::Hash + Send,
        S: std::hash::BuildHasher + Default + Send,
    {
        fn from_par_iter<P: ParallelIterator<Item = K>>(p: P) -> Self {
            let groups = run_ordered(p);
            let mut m = std::collections::HashSet::with_hasher(S::default());
            for g in groups {
                m.extend(g);
            }
            m
        }
    }

    pub trait IntoParallelIterator {
        type Iter: ParallelIterator<Item = Self::Item>;
        type Item: Send;
        fn into_par_iter(self) -> Self::Iter;
    }

    pub trait IntoParallelRefIterator<'a> {
        type Iter: ParallelIterator<Item = Self::Item>;
        type Item: Send + 'a;
        fn par_iter(&'a self) -> Self::Iter;
    }

    impl<'a, I: 'a + ?Sized> IntoParallelRefIterator<'a> for I
    where
        &'a I: IntoParallelIterator,
    {
        type Iter = <&'a I as IntoParallelIterator>::Iter;
        type Item = <&'a I as IntoParallelIterator>::Item;
        fn par_iter(&'a self) -> Self::Iter {
            self.into_par_iter()
        }
    }

    // --- sources ---------------------------------------------------------------------------

    pub struct RangeIter<T> {
        start: T,
        len: usize,
    }

    macro_rules! range_impl {
        ($($t:ty),*) => {$(
            impl ParallelIterator for RangeIter<$t> {
                type Item = $t;
                fn base_len(&self) -> usize { self.len }
                fn feed(&self, idx: usize, sink: &mut dyn FnMut($t)) { sink(self.start + idx as $t) }
            }
            impl IntoParallelIterator for Range<$t> {
                type Iter = RangeIter<$t>;
                type Item = $t;
                fn into_par_iter(self) -> RangeIter<$t> {
                    let len = if self.end > self.start { (self.end - self.start) as usize } else { 0 };
                    RangeIter { start: self.start, len }
                }
            }
        )*};
    }
    range_impl!(usize, isize, u32, i32, u64, i64);

    pub struct VecIter<T> {
        items: Vec<StdMutex<Option<T>>>,
    }

    impl<T: Send> ParallelIterator for VecIter<T> {
        type Item = T;
        fn base_len(&self) -> usize {
            self.items.len()
        }
        fn feed(&self, idx: usize, sink: &mut dyn FnMut(T)) {
            let x = self.items[idx].lock().unwrap().take().expect("item consumed twice");
            sink(x)
        }
    }

    impl<T: Send> IntoParallelIterator for Vec<T> {
        type Iter = VecIter<T>;
        type Item = T;
        fn into_par_iter(self) -> VecIter<T> {
            VecIter { items: self.into_iter().map(|x| StdMutex::new(Some(x))).collect() }
        }
    }

    pub struct SliceIter<'a, T> {
        items: &'a [T],
    }

    impl<'a, T: Sync + 'a> ParallelIterator for SliceIter<'a, T> {
        type Item = &'a T;
        fn base_len(&self) -> usize {
            self.items.len()
        }
        fn feed(&self, idx: usize, sink: &mut dyn FnMut(&'a T)) {
            sink(&self.items[idx])
        }
    }

    impl<'a, T: Sync + 'a> IntoParallelIterator for &'a [T] {
        type Iter = SliceIter<'a, T>;
        type Item = &'a T;
        fn into_par_iter(self) -> SliceIter<'a, T> {
            SliceIter { items: self }
        }
    }

    impl<'a, T: Sync + 'a> IntoParallelIterator for &'a Vec<T> {
        type Iter = SliceIter<'a, T>;
        type Item = &'a T;
        fn into_par_iter(self) -> SliceIter<'a, T> {
            SliceIter { items: self.as_slice() }
        }
    }

    // --- adaptors --------------------------------------------------------------------------

    pub struct Map<B, F> {
        base: B,
        f: F,
    }

    impl<B, F, R> ParallelIterator for Map<B, F>
    where
        B: ParallelIterator,
        F: Fn(B::Item) -> R + Sync + Send,
        R: Send,
    {
        type Item = R;
        fn base_len(&self) -> usize {
            self.base.base_len()
        }
        fn feed(&self, idx: usize, sink: &mut dyn FnMut(R)) {
            self.base.feed(idx, &mut |x| sink((self.f)(x)))
        }
    }

    pub struct Filter<B, P> {
        base: B,
        p: P,
    }

    impl<B, P> ParallelIterator for Filter<B, P>
    where
        B: ParallelIterator,
        P: Fn(&B::Item) -> bool + Sync + Send,
    {
        type Item = B::Item;
        fn base_len(&self) -> usize {
            self.base.base_len()
        }
        fn feed(&self, idx: usize, sink: &mut dyn FnMut(B::Item)) {
            self.base.feed(idx, &mut |x| {
                if (self.p)(&x) {
                    sink(x)
                }
            })
        }
    }

    pub struct FlatMap<B, F> {
        base: B,
        f: F,
    }

    impl<B, F, PI> ParallelIterator for FlatMap<B, F>
    where
        B: ParallelIterator,
        F: Fn(B::Item) -> PI + Sync + Send,
        PI: IntoParallelIterator,
    {
        type Item = PI::Item;
        fn base_len(&self) -> usize {
            self.base.base_len()
        }
        fn feed(&self, idx: usize, sink: &mut dyn FnMut(PI::Item)) {
            self.base.feed(idx, &mut |x| {
                let inner = (self.f)(x).into_par_iter();
                for j in 0..inner.base_len() {
                    inner.feed(j, sink);
                }
            })
        }
    }

    pub struct FilterMap<B, F> { base: B, f: F }
    impl<B, F, R> ParallelIterator for FilterMap<B, F>
    where B: ParallelIterator, F: Fn(B::Item) -> Option<R> + Sync + Send, R: Send {
        type Item = R;
        fn base_len(&self) -> usize { self.base.base_len() }
        fn feed(&self, idx: usize, sink: &mut dyn FnMut(R)) {
            self.base.feed(idx, &mut |x| if let Some(y) = (self.f)(x) { sink(y) })
        }
    }

    pub struct Inspect<B, F> { base: B, f: F }
    impl<B, F> ParallelIterator for Inspect<B, F>
    where B: ParallelIterator, F: Fn(&B::Item) + Sync + Send {
        type Item = B::Item;
        fn base_len(&self) -> usize { self.base.base_len() }
        fn feed(&self, idx: usize, sink: &mut dyn FnMut(B::Item)) {
            self.base.feed(idx, &mut |x| { (self.f)(&x); sink(x) })
        }
    }

    pub struct FlatMapIter<B, F> { base: B, f: F }
    impl<B, F, I> ParallelIterator for FlatMapIter<B, F>
    where B: ParallelIterator, F: Fn(B::Item) -> I + Sync + Send, I: IntoIterator, I::Item: Send {
        type Item = I::Item;
        fn base_len(&self) -> usize { self.base.base_len() }
        fn feed(&self, idx: usize, sink: &mut dyn FnMut(I::Item)) {
            self.base.feed(idx, &mut |x| for y in (self.f)(x) { sink(y) })
        }
    }

    pub struct MapWith<B, T, F> { base: B, init: T, f: F }
    impl<B, T, F, R> ParallelIterator for MapWith<B, T, F>
    where B: ParallelIterator, T: Clone + Send + Sync, F: Fn(&mut T, B::Item) -> R + Sync + Send, R: Send {
        type Item = R;
        fn base_len(&self) -> usize { self.base.base_len() }
        fn feed(&self, idx: usize, sink: &mut dyn FnMut(R)) {
            let mut t = self.init.clone();
            self.base.feed(idx, &mut |x| sink((self.f)(&mut t, x)))
        }
    }

    pub struct Enumerate<B> { base: B }
    impl<B: ParallelIterator> ParallelIterator for Enumerate<B> {
        type Item = (usize, B::Item);
        fn base_len(&self) -> usize { self.base.base_len() }
        fn feed(&self, idx: usize, sink: &mut dyn FnMut((usize, B::Item))) {
            self.base.feed(idx, &mut |x| sink((idx, x)))
        }
    }

    pub struct Zip<A, B> { a: A, b: B }
    impl<A: ParallelIterator, B: ParallelIterator> ParallelIterator for Zip<A, B> {
        type Item = (A::Item, B::Item);
        fn base_len(&self) -> usize { self.a.base_len().min(self.b.base_len()) }
        fn feed(&self, idx: usize, sink: &mut dyn FnMut((A::Item, B::Item))) {
            let mut x = None;
            let mut y = None;
            self.a.feed(idx, &mut |v| x = Some(v));
            self.b.feed(idx, &mut |v| y = Some(v));
            if let (Some(x), Some(y)) = (x, y) { sink((x, y)) }
        }
    }

    pub struct Chunks<B> { base: B, size: usize }
    impl<B: ParallelIterator> ParallelIterator for Chunks<B> {
        type Item = Vec<B::Item>;
        fn base_len(&self) -> usize { (self.base.base_len() + self.size - 1) / self.size }
        fn feed(&self, idx: usize, sink: &mut dyn FnMut(Vec<B::Item>)) {
            let mut v = vec![];
            for i in idx * self.size..((idx + 1) * self.size).min(self.base.base_len()) {
                self.base.feed(i, &mut |x| v.push(x));
            }
            sink(v)
        }
    }

    pub struct Fold<B, ID, F> { base: B, identity: ID, op: F }
    impl<B, T, ID, F> ParallelIterator for Fold<B, ID, F>
    where B: ParallelIterator, T: Send, ID: Fn() -> T + Sync + Send, F: Fn(T, B::Item) -> T + Sync + Send {
        type Item = T;
        fn base_len(&self) -> usize { self.base.base_len() }
        fn feed(&self, idx: usize, sink: &mut dyn FnMut(T)) {
            // rayon promises nothing about how many accumulators exist: one per base item is legal
            let mut acc = Some((self.identity)());
            self.base.feed(idx, &mut |x| acc = Some((self.op)(acc.take().unwrap(), x)));
            sink(acc.unwrap())
        }
    }

    // --- mutable slices, chunked slices ---------------------------------------------------

    pub struct SliceIterMut<'a, T> { ptr: *mut T, len: usize, _m: std::marker::PhantomData<&'a mut T> }
    // every index is handed to exactly one job, as with rayon's par_iter_mut
    unsafe impl<'a, T: Send> Sync for SliceIterMut<'a, T> {}
    unsafe impl<'a, T: Send> Send for SliceIterMut<'a, T> {}
    impl<'a, T: Send + 'a> ParallelIterator for SliceIterMut<'a, T> {
        type Item = &'a mut T;
        fn base_len(&self) -> usize { self.len }
        fn feed(&self, idx: usize, sink: &mut dyn FnMut(&'a mut T)) {
            assert!(idx < self.len);
            sink(unsafe { &mut *self.ptr.add(idx) })
        }
    }
    impl<'a, T: Send + 'a> IntoParallelIterator for &'a mut [T] {
        type Iter = SliceIterMut<'a, T>;
        type Item = &'a mut T;
        fn into_par_iter(self) -> SliceIterMut<'a, T> { SliceIterMut { ptr: self.as_mut_ptr(), len: self.len(), _m: std::marker::PhantomData } }
    }
    impl<'a, T: Send + 'a> IntoParallelIterator for &'a mut Vec<T> {
        type Iter = SliceIterMut<'a, T>;
        type Item = &'a mut T;
        fn into_par_iter(self) -> SliceIterMut<'a, T> { self.as_mut_slice().into_par_iter() }
    }

    pub trait IntoParallelRefMutIterator<'a> {
        type Iter: ParallelIterator<Item = Self::Item>;
        type Item: Send + 'a;
        fn par_iter_mut(&'a mut self) -> Self::Iter;
    }
    impl<'a, I: 'a + ?Sized> IntoParallelRefMutIterator<'a> for I
    where &'a mut I: IntoParallelIterator {
        type Iter = <&'a mut I as IntoParallelIterator>::Iter;
        type Item = <&'a mut I as IntoParallelIterator>::Item;
        fn par_iter_mut(&'a mut self) -> Self::Iter { self.into_par_iter() }
    }

    pub struct ChunksIter<'a, T> { items: &'a [T], size: usize }
    impl<'a, T: Sync + 'a> ParallelIterator for ChunksIter<'a, T> {
        type Item = &'a [T];
        fn base_len(&self) -> usize { (self.items.len() + self.size - 1) / self.size }
        fn feed(&self, idx: usize, sink: &mut dyn FnMut(&'a [T])) {
            let lo = idx * self.size;
            sink(&self.items[lo..(lo + self.size).min(self.items.len())])
        }
    }

    pub trait ParallelSlice<T: Sync> {
        fn as_parallel_slice(&self) -> &[T];
        fn par_chunks(&self, size: usize) -> ChunksIter<'_, T> {
            assert!(size > 0, "chunk size must be non-zero");
            ChunksIter { items: self.as_parallel_slice(), size }
        }
        fn par_chunks_exact(&self, size: usize) -> ChunksIter<'_, T> {
            assert!(size > 0, "chunk size must be non-zero");
            let s = self.as_parallel_slice();
            ChunksIter { items: &s[..s.len() - s.len() % size], size }
        }
    }
    impl<T: Sync> ParallelSlice<T> for [T] {
        fn as_parallel_slice(&self) -> &[T] { self }
    }

    pub struct ChunksIterMut<'a, T> { ptr: *mut T, len: usize, size: usize, _m: std::marker::PhantomData<&'a mut T> }
    // every chunk is handed to exactly one job, as with rayon's par_chunks_mut
    unsafe impl<'a, T: Send> Sync for ChunksIterMut<'a, T> {}
    unsafe impl<'a, T: Send> Send for ChunksIterMut<'a, T> {}
    impl<'a, T: Send + 'a> ParallelIterator for ChunksIterMut<'a, T> {
        type Item = &'a mut [T];
        fn base_len(&self) -> usize { (self.len + self.size - 1) / self.size }
        fn feed(&self, idx: usize, sink: &mut dyn FnMut(&'a mut [T])) {
            let lo = idx * self.size;
            assert!(lo < self.len);
            let n = self.size.min(self.len - lo);
            sink(unsafe { std::slice::from_raw_parts_mut(self.ptr.add(lo), n) })
        }
    }

    pub trait ParallelSliceMut<T: Send> {
        fn as_parallel_slice_mut(&mut self) -> &mut [T];
        fn par_chunks_mut(&mut self, size: usize) -> ChunksIterMut<'_, T> {
            assert!(size > 0, "chunk size must be non-zero");
            let s = self.as_parallel_slice_mut();
            ChunksIterMut { ptr: s.as_mut_ptr(), len: s.len(), size, _m: std::marker::PhantomData }
        }
        fn par_chunks_exact_mut(&mut self, size: usize) -> ChunksIterMut<'_, T> {
            assert!(size > 0, "chunk size must be non-zero");
            let s = self.as_parallel_slice_mut();
            ChunksIterMut { ptr: s.as_mut_ptr(), len: s.len() - s.len() % size, size, _m: std::marker::PhantomData }
        }
        fn par_sort(&mut self) where T: Ord { self.as_parallel_slice_mut().sort() }
        fn par_sort_unstable(&mut self) where T: Ord { self.as_parallel_slice_mut().sort_unstable() }
        fn par_sort_by<F: Fn(&T, &T) -> std::cmp::Ordering + Sync>(&mut self, f: F) { self.as_parallel_slice_mut().sort_by(|a, b| f(a, b)) }
        fn par_sort_unstable_by<F: Fn(&T, &T) -> std::cmp::Ordering + Sync>(&mut self, f: F) { self.as_parallel_slice_mut().sort_unstable_by(|a, b| f(a, b)) }
        fn par_sort_by_key<K: Ord, F: Fn(&T) -> K + Sync>(&mut self, f: F) { self.as_parallel_slice_mut().sort_by_key(|a| f(a)) }
        fn par_sort_unstable_by_key<K: Ord, F: Fn(&T) -> K + Sync>(&mut self, f: F) { self.as_parallel_slice_mut().sort_unstable_by_key(|a| f(a)) }
    }
    impl<T: Send> ParallelSliceMut<T> for [T] {
        fn as_parallel_slice_mut(&mut self) -> &mut [T] { self }
    }

    /// `iter.par_bridge()`: the items are pulled eagerly, then handed out like a Vec
    pub trait ParallelBridge: Sized + Iterator where Self::Item: Send {
        fn par_bridge(self) -> VecIter<Self::Item> {
            // rayon documents no order for the results of a bridged iterator (`collect` returns
            // them as the workers happened to pull them): the simulated run draws one
            let mut v = self.collect::<Vec<_>>();
            if rt::in_sim() && rt::par_cfg().map(|c| c.workers > 1).unwrap_or(false) {
                for i in (1..v.len()).rev() {
                    let j = rt::shim_below(i as u64 + 1) as usize;
                    v.swap(i, j);
                }
            }
            v.into_par_iter()
        }
    }
    impl<I: Iterator> ParallelBridge for I where I::Item: Send {}

    // collecting into the other std containers
    impl<T: Send + Ord> FromParallelIterator<T> for std::collections::BTreeSet<T> {
        fn from_par_iter<P: ParallelIterator<Item = T>>(p: P) -> Self { run_ordered(p).into_iter().flatten().collect() }
    }
    impl<K: Send + Ord, V: Send> FromParallelIterator<(K, V)> for std::collections::BTreeMap<K, V> {
        fn from_par_iter<P: ParallelIterator<Item = (K, V)>>(p: P) -> Self { run_ordered(p).into_iter().flatten().collect() }
    }
    impl<T: Send> FromParallelIterator<T> for std::collections::VecDeque<T> {
        fn from_par_iter<P: ParallelIterator<Item = T>>(p: P) -> Self { run_ordered(p).into_iter().flatten().collect() }
    }
    impl FromParallelIterator<char> for String {
        fn from_par_iter<P: ParallelIterator<Item = char>>(p: P) -> Self { run_ordered(p).into_iter().flatten().collect() }
    }
    impl FromParallelIterator<()> for () {
        fn from_par_iter<P: ParallelIterator<Item = ()>>(p: P) -> Self { run_ordered(p); }
    }
    impl<T: Send, E: Send, C: FromIterator<T>> FromParallelIterator<Result<T, E>> for Result<C, E> {
        fn from_par_iter<P: ParallelIterator<Item = Result<T, E>>>(p: P) -> Self { run_ordered(p).into_iter().flatten().collect() }
    }
    impl<T: Send, C: FromIterator<T>> FromParallelIterator<Option<T>> for Option<C> {
        fn from_par_iter<P: ParallelIterator<Item = Option<T>>>(p: P) -> Self { run_ordered(p).into_iter().flatten().collect() }
    }
}
