//! API smoke test of the shim (outside a simulation everything runs sequentially).
use rayon::prelude::*;

#[test]
fn adaptors_and_terminals() {
    let v: Vec<usize> = (0..10usize).into_par_iter().map(|x| x * 2).collect();
    assert_eq!(v, (0..10).map(|x| x * 2).collect::<Vec<_>>());
    let w: Vec<(usize, &usize)> = v.par_iter().enumerate().collect();
    assert_eq!(w[3], (3, &6));
    assert_eq!(v.par_iter().copied().sum::<usize>(), 90);
    assert_eq!(v.par_iter().cloned().filter_map(|x| (x % 4 == 0).then_some(x)).count(), 5);
    assert_eq!(v.par_chunks(3).map(|c| c.len()).collect::<Vec<_>>(), vec![3, 3, 3, 1]);
    let mut m = vec![1, 2, 3];
    m.par_iter_mut().for_each(|x| *x += 1);
    assert_eq!(m, vec![2, 3, 4]);
    assert_eq!((0..5usize).into_par_iter().reduce(|| 0, |a, b| a + b), 10);
    assert_eq!((0..5usize).into_par_iter().fold(|| 0usize, |a, b| a + b).sum::<usize>(), 10);
    assert!((0..5usize).into_par_iter().any(|x| x == 3));
    assert!(!(0..5usize).into_par_iter().all(|x| x < 3));
    assert_eq!((0..5usize).into_par_iter().zip(vec![5, 6, 7]).collect::<Vec<_>>(), vec![(0, 5), (1, 6), (2, 7)]);
    assert_eq!((0..7usize).into_par_iter().chunks(3).collect::<Vec<_>>(), vec![vec![0, 1, 2], vec![3, 4, 5], vec![6]]);
    assert_eq!(rayon::join(|| 1, || "x"), (1, "x"));
    assert_eq!((0..5usize).into_par_iter().flat_map_iter(|x| vec![x; x]).count(), 10);
    assert_eq!((0..5usize).into_par_iter().max(), Some(4));
    let r: Result<Vec<usize>, String> = (0..3usize).into_par_iter().map(Ok).collect();
    assert_eq!(r.unwrap(), vec![0, 1, 2]);
    let s: std::collections::BTreeSet<usize> = (0..3usize).into_par_iter().collect();
    assert_eq!(s.len(), 3);
    let mut z = vec![3, 1, 2];
    z.par_sort();
    assert_eq!(z, vec![1, 2, 3]);
    assert_eq!((0..4usize).par_bridge().count(), 4);
    let mut c = vec![0usize; 7];
    c.par_chunks_mut(3).enumerate().for_each(|(k, ch)| ch.iter_mut().for_each(|x| *x = k + 1));
    assert_eq!(c, vec![1, 1, 1, 2, 2, 2, 3]);
    let mut e = vec![0usize; 7];
    e.par_chunks_exact_mut(3).enumerate().for_each(|(k, ch)| ch.iter_mut().for_each(|x| *x = k + 1));
    assert_eq!(e, vec![1, 1, 1, 2, 2, 2, 0]);
    assert_eq!(vec![1, 2, 3, 4, 5].par_chunks_exact(2).map(|c| c.len()).collect::<Vec<_>>(), vec![2, 2]);
}
