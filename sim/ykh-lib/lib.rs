//! The modules of the `ykh` binary compiled as a library (see gen_shadow.py), so that the
//! simulation harness can drive the real argument parsing / dispatch / panic guard in-process.
#[path = "/repo/bin-ykh/src/app/mod.rs"]
pub mod app;
pub use app::App;
