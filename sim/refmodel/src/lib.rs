//! Reference models used as oracles.  Nothing in this crate depends on taketo1024/yui: the rings,
//! the dense linear algebra, the Smith normal form and the cube-of-resolutions Khovanov complex
//! are written from the definitions.

pub mod ring;
pub mod dense;
pub mod link;
pub mod kh;

pub use dense::DM;
pub use ring::*;
