//! Cube-of-resolutions Khovanov complex, written from the definition.
//!
//! Frobenius algebra A = R[X]/(X^2 - hX - t), counit eps(1)=0, eps(X)=1:
//!   m(1,1)=1  m(1,X)=m(X,1)=X  m(X,X)=hX+t
//!   D(1)=1(x)X + X(x)1 - h 1(x)1      D(X)=X(x)X + t 1(x)1
//! Cube: vertices = complete resolutions s in {0,1}^n, module A^{(x) circles(s)}, edge maps m / D
//! with sign (-1)^{number of 1s before the flipped position}.  Homological degree |s| - n_-,
//! quantum degree (for h=t=0) deg(labels) + |s| + n_+ - 2 n_-, deg(1)=+1, deg(X)=-1.
//! Reduced theory (t = 0): sub-complex spanned by generators whose base-point circle is labelled X,
//! quantum degree shifted by +1.
//!
//! All matrices are integer matrices parametrised by integers (h,t); homology over Z by an own
//! Smith reduction, over Q by the integer rank, over F_p by the rank mod p.

use crate::dense::{prime_powers, smith_diagonal, IsoType, DM};
use crate::link::{Diagram, Edge, PdError};
use crate::ring::Z;
use num_bigint::BigInt;
use num_traits::{One, Zero};
use std::collections::BTreeMap;

#[derive(Clone, Debug, PartialEq, Eq, PartialOrd, Ord)]
pub struct Gen {
    pub state: u64,
    /// bit c set <=> circle c (in the order of `Diagram::circles`) carries X
    pub labels: u64,
    pub ncirc: u32,
}

#[derive(Clone, Debug)]
pub struct Cube {
    pub n: usize,
    pub n_plus: usize,
    pub n_minus: usize,
    pub reduced: bool,
    /// gens[r] = generators over states with r ones
    pub gens: Vec<Vec<Gen>>,
    /// d[r]: gens[r] -> gens[r+1], sparse (row, col, value)
    pub d: Vec<Vec<(usize, usize, i64)>>,
    pub components: usize,
    pub orientation_ambiguous: bool,
    pub ambiguous_comps: Vec<usize>,
}

/// a (x) b in basis {1,X}: 0 = 1, 1 = X.  Returns list of (label of merged circle, coeff).
fn mult(a: u64, b: u64, h: i64, t: i64) -> Vec<(u64, i64)> {
    match (a, b) {
        (0, 0) => vec![(0, 1)],
        (0, 1) | (1, 0) => vec![(1, 1)],
        _ => vec![(1, h), (0, t)],
    }
}

/// D(a): list of ((label first, label second), coeff)
fn comult(a: u64, h: i64, t: i64) -> Vec<((u64, u64), i64)> {
    match a {
        0 => vec![((0, 1), 1), ((1, 0), 1), ((0, 0), -h)],
        _ => vec![((1, 1), 1), ((0, 0), t)],
    }
}

impl Cube {
    pub fn new(dg: &Diagram, h: i64, t: i64, reduced: bool, base_edge: Option<Edge>) -> Result<Cube, PdError> {
        Self::new_oriented(dg, h, t, reduced, base_edge, &[])
    }

    /// like `new`, with the listed orientation-ambiguous components reversed
    pub fn new_oriented(dg: &Diagram, h: i64, t: i64, reduced: bool, base_edge: Option<Edge>, flips: &[usize]) -> Result<Cube, PdError> {
        let o = dg.orientation_flipped(flips)?;
        let n = dg.n_unresolved();
        assert!(n <= 16, "reference cube limited to 16 crossings");
        assert!(!reduced || t == 0, "reduced theory needs t = 0");
        let nstates = 1u64 << n;
        let circles: Vec<Vec<Vec<Edge>>> = (0..nstates).map(|s| dg.circles(s)).collect();
        let base_circle = |s: u64| -> Option<usize> {
            let b = base_edge?;
            circles[s as usize].iter().position(|c| c.contains(&b))
        };
        let mut gens: Vec<Vec<Gen>> = vec![vec![]; n + 1];
        let mut index: BTreeMap<(u64, u64), usize> = BTreeMap::new();
        for s in 0..nstates {
            let r = s.count_ones() as usize;
            let nc = circles[s as usize].len();
            let bc = if reduced { Some(base_circle(s).expect("base edge lies on a circle")) } else { None };
            for l in 0..(1u64 << nc) {
                if let Some(bc) = bc {
                    if (l >> bc) & 1 == 0 { continue; }
                }
                index.insert((s, l), gens[r].len());
                gens[r].push(Gen { state: s, labels: l, ncirc: nc as u32 });
            }
        }
        let mut d: Vec<Vec<(usize, usize, i64)>> = vec![vec![]; n + 1];
        for r in 0..n {
            for (col, g) in gens[r].iter().enumerate() {
                let s = g.state;
                let cs = &circles[s as usize];
                for k in 0..n {
                    if (s >> k) & 1 == 1 { continue; }
                    let s2 = s | (1 << k);
                    let cs2 = &circles[s2 as usize];
                    let sign: i64 = if (s & ((1u64 << k) - 1)).count_ones() % 2 == 0 { 1 } else { -1 };
                    // circles of s not present in s2 and vice versa
                    let gone: Vec<usize> = (0..cs.len()).filter(|&i| !cs2.contains(&cs[i])).collect();
                    let born: Vec<usize> = (0..cs2.len()).filter(|&i| !cs.contains(&cs2[i])).collect();
                    // labels of the unchanged circles carried over
                    let mut base_labels = 0u64;
                    for (i, c) in cs.iter().enumerate() {
                        if let Some(j) = cs2.iter().position(|c2| c2 == c) {
                            base_labels |= ((g.labels >> i) & 1) << j;
                        }
                    }
                    let mut outs: Vec<(u64, i64)> = vec![];
                    match (gone.len(), born.len()) {
                        (2, 1) => {
                            let (a, b) = ((g.labels >> gone[0]) & 1, (g.labels >> gone[1]) & 1);
                            for (l, c) in mult(a, b, h, t) {
                                outs.push((base_labels | (l << born[0]), c));
                            }
                        }
                        (1, 2) => {
                            let a = (g.labels >> gone[0]) & 1;
                            for ((l1, l2), c) in comult(a, h, t) {
                                outs.push((base_labels | (l1 << born[0]) | (l2 << born[1]), c));
                            }
                        }
                        other => panic!("cube edge is neither a merge nor a split: {other:?}"),
                    }
                    for (l2, c) in outs {
                        if c == 0 { continue; }
                        match index.get(&(s2, l2)) {
                            Some(&row) => d[r].push((row, col, sign * c)),
                            None => panic!("target generator missing (sub-complex not closed)"),
                        }
                    }
                }
            }
        }
        Ok(Cube { n, n_plus: o.n_plus, n_minus: o.n_minus, reduced, gens, d, components: o.components, orientation_ambiguous: o.ambiguous, ambiguous_comps: o.ambiguous_comps.clone() })
    }

    pub fn h_deg(&self, r: usize) -> i32 {
        r as i32 - self.n_minus as i32
    }

    pub fn q_deg(&self, r: usize, g: &Gen) -> i32 {
        let xs = g.labels.count_ones() as i32;
        let ones = g.ncirc as i32 - xs;
        (ones - xs) + r as i32 + self.n_plus as i32 - 2 * self.n_minus as i32 + if self.reduced { 1 } else { 0 }
    }

    /// dense matrix of d[r] restricted to the given generator subsets
    fn block(&self, r: usize, cols: &[usize], rows: &[usize]) -> SparseInt {
        let cmap: BTreeMap<usize, usize> = cols.iter().enumerate().map(|(i, c)| (*c, i)).collect();
        let rmap: BTreeMap<usize, usize> = rows.iter().enumerate().map(|(i, c)| (*c, i)).collect();
        let mut m = SparseInt::new(rows.len(), cols.len());
        for &(i, j, v) in &self.d[r] {
            if let (Some(&ii), Some(&jj)) = (rmap.get(&i), cmap.get(&j)) {
                m.add(ii, jj, v as i128);
            }
        }
        m
    }

    fn full(&self, r: usize) -> SparseInt {
        let cols: Vec<usize> = (0..self.gens[r].len()).collect();
        let rows: Vec<usize> = (0..self.gens.get(r + 1).map(|g| g.len()).unwrap_or(0)).collect();
        self.block(r, &cols, &rows)
    }

    /// d∘d = 0 (sanity of the reference itself)
    pub fn check_dd(&self) -> bool {
        for r in 0..self.n.saturating_sub(1) {
            let a = self.full(r).to_dm();
            let b = self.full(r + 1).to_dm();
            if !b.mul(&a).is_zero() { return false; }
        }
        true
    }

    /// homology per homological degree; `modulus`: None = over Z, Some(0) = over Q, Some(p) = F_p
    pub fn homology(&self, modulus: Option<u32>) -> BTreeMap<i32, IsoType> {
        let mut out = BTreeMap::new();
        let snfs: Vec<Smith> = (0..=self.n).map(|r| self.full(r).smith(modulus)).collect();
        for r in 0..=self.n {
            let nr = self.gens[r].len();
            let rank_out = snfs[r].rank;
            let (rank_in, tors) = if r > 0 { (snfs[r - 1].rank, snfs[r - 1].nonunit.clone()) } else { (0, vec![]) };
            let free = nr - rank_out - rank_in;
            let t = if modulus.is_none() { IsoType::from_orders(free, tors) } else { IsoType::free(free) };
            if !t.is_zero() {
                out.insert(self.h_deg(r), t);
            }
        }
        out
    }

    /// bigraded homology (requires h = t = 0)
    pub fn homology_bigraded(&self, modulus: Option<u32>) -> BTreeMap<(i32, i32), IsoType> {
        let mut out = BTreeMap::new();
        // generators of degree r by q
        let by_q: Vec<BTreeMap<i32, Vec<usize>>> = (0..=self.n).map(|r| {
            let mut m: BTreeMap<i32, Vec<usize>> = BTreeMap::new();
            for (i, g) in self.gens[r].iter().enumerate() {
                m.entry(self.q_deg(r, g)).or_default().push(i);
            }
            m
        }).collect();
        let empty: Vec<usize> = vec![];
        for r in 0..=self.n {
            for (&q, cols) in &by_q[r] {
                let rows_out = by_q.get(r + 1).and_then(|m| m.get(&q)).unwrap_or(&empty);
                let s_out = if r < self.n { self.block(r, cols, rows_out).smith(modulus) } else { Smith::default() };
                let s_in = if r > 0 {
                    let prev = by_q[r - 1].get(&q).unwrap_or(&empty);
                    self.block(r - 1, prev, cols).smith(modulus)
                } else { Smith::default() };
                let free = cols.len() - s_out.rank - s_in.rank;
                let t = if modulus.is_none() { IsoType::from_orders(free, s_in.nonunit.clone()) } else { IsoType::free(free) };
                if !t.is_zero() {
                    out.insert((self.h_deg(r), q), t);
                }
            }
        }
        out
    }

    pub fn total_generators(&self) -> usize {
        self.gens.iter().map(|g| g.len()).sum()
    }
}

// ---------------------------------------------------------------------------------------------
// involutive theory: mapping cone of 1 + tau over F_2
// ---------------------------------------------------------------------------------------------

impl Cube {
    /// The chain map induced by a diagram involution given on edges: crossings are carried to the
    /// crossing with the image edge set (keeping the smoothing type), circles to their image edge
    /// sets, labels along.  tau[r][g] = index (within degree r) of the image of generator g.
    pub fn involution(&self, dg: &Diagram, emap: &dyn Fn(Edge) -> Edge) -> Result<Vec<Vec<usize>>, String> {
        let xs: Vec<usize> = (0..dg.xs.len()).filter(|&i| dg.xs[i].resolved.is_none()).collect();
        let mut xmap = vec![0usize; xs.len()];
        for (k, &xi) in xs.iter().enumerate() {
            let mut img: Vec<Edge> = dg.xs[xi].e.iter().map(|&e| emap(e)).collect();
            img.sort();
            let pos = xs.iter().position(|&xj| { let mut e = dg.xs[xj].e.to_vec(); e.sort(); e == img });
            match pos {
                Some(k2) => xmap[k] = k2,
                None => return Err(format!("crossing {:?} has no image under the involution", dg.xs[xi].e)),
            }
        }
        let mut circ_cache: BTreeMap<u64, Vec<Vec<Edge>>> = BTreeMap::new();
        let mut circles = |s: u64| -> Vec<Vec<Edge>> { circ_cache.entry(s).or_insert_with(|| dg.circles(s)).clone() };
        let mut out = vec![];
        for r in 0..=self.n {
            let index: BTreeMap<(u64, u64), usize> = self.gens[r].iter().enumerate().map(|(i, g)| ((g.state, g.labels), i)).collect();
            let mut col = vec![];
            for g in &self.gens[r] {
                let mut s2 = 0u64;
                for k in 0..self.n {
                    if (g.state >> k) & 1 == 1 { s2 |= 1 << xmap[k]; }
                }
                let (c1, c2) = (circles(g.state), circles(s2));
                let mut l2 = 0u64;
                for (i, c) in c1.iter().enumerate() {
                    let mut img: Vec<Edge> = c.iter().map(|&e| emap(e)).collect();
                    img.sort();
                    let Some(j) = c2.iter().position(|x| *x == img) else { return Err("circle has no image under the involution".into()) };
                    l2 |= ((g.labels >> i) & 1) << j;
                }
                match index.get(&(s2, l2)) {
                    Some(&i) => col.push(i),
                    None => return Err("generator has no image under the involution".into()),
                }
            }
            out.push(col);
        }
        Ok(out)
    }

    /// dimensions over F_2 of the homology of Cone(1 + tau): cone^i = C^i (+) C^{i-1},
    /// d(x, y) = (dx, x + tau x + dy).  Entries of the cube differential are taken mod 2.
    pub fn cone_homology_mod2(&self, tau: &[Vec<usize>]) -> BTreeMap<i32, usize> {
        let n = self.n;
        let dim = |r: isize| -> usize { if r < 0 || r as usize > n { 0 } else { self.gens[r as usize].len() } };
        // cone index c = 0..=n+1 ; block sizes (dim(c), dim(c-1))
        let mats: Vec<SparseInt> = (0..=(n + 1)).map(|c| {
            let (b0, q0) = (dim(c as isize), dim(c as isize - 1));
            let (b1, q1) = (dim(c as isize + 1), dim(c as isize));
            let mut m = SparseInt::new(b1 + q1, b0 + q0);
            if c <= n {
                for &(i, j, v) in &self.d[c] { if v.rem_euclid(2) == 1 { m.add(i, j, 1); } }       // B x -> B dx
                for j in 0..b0 { m.add(b1 + j, j, 1); m.add(b1 + tau[c][j], j, 1); }               // B x -> Q (x + tau x)
            }
            if c >= 1 && c - 1 <= n {
                for &(i, j, v) in &self.d[c - 1] { if v.rem_euclid(2) == 1 { m.add(b1 + i, b0 + j, 1); } } // Q y -> Q dy
            }
            // x + tau x with tau x = x cancels mod 2
            for row in m.data.iter_mut() { row.retain(|_, v| v.rem_euclid(2) == 1); }
            m
        }).collect();
        let ranks: Vec<usize> = mats.iter().map(|m| m.smith(Some(2)).rank).collect();
        let mut out = BTreeMap::new();
        for c in 0..=(n + 1) {
            let total = dim(c as isize) + dim(c as isize - 1);
            let rin = if c > 0 { ranks[c - 1] } else { 0 };
            let h = total - ranks[c] - rin;
            if h > 0 { out.insert(c as i32 - self.n_minus as i32, h); }
        }
        out
    }
}

// ---------------------------------------------------------------------------------------------
// sparse integer matrices with an own Smith reduction
// ---------------------------------------------------------------------------------------------

#[derive(Clone, Debug)]
pub struct SparseInt {
    pub rows: usize,
    pub cols: usize,
    pub data: Vec<BTreeMap<usize, i128>>, // per row
}

#[derive(Clone, Debug, Default)]
pub struct Smith {
    pub rank: usize,
    /// non-unit diagonal entries (absolute values) — torsion orders
    pub nonunit: Vec<BigInt>,
}

impl SparseInt {
    pub fn new(rows: usize, cols: usize) -> Self {
        SparseInt { rows, cols, data: vec![BTreeMap::new(); rows] }
    }
    pub fn add(&mut self, i: usize, j: usize, v: i128) {
        let e = self.data[i].entry(j).or_insert(0);
        *e += v;
        if *e == 0 { self.data[i].remove(&j); }
    }
    pub fn from_dm(m: &DM<Z>) -> Self {
        use num_traits::ToPrimitive;
        let mut s = SparseInt::new(m.rows, m.cols);
        for i in 0..m.rows { for j in 0..m.cols {
            let v = &m.get(i, j).0;
            if !v.is_zero() { s.add(i, j, v.to_i128().expect("entry fits i128")); }
        } }
        s
    }
    pub fn to_dm(&self) -> DM<Z> {
        let mut m = DM::zero(self.rows, self.cols);
        for (i, row) in self.data.iter().enumerate() {
            for (&j, &v) in row { m.set(i, j, Z(BigInt::from(v))); }
        }
        m
    }

    /// Smith data.  modulus None: over Z; Some(0): rank over Q; Some(p): rank over F_p.
    pub fn smith(&self, modulus: Option<u32>) -> Smith {
        match modulus {
            Some(p) if p > 0 => Smith { rank: self.rank_mod(p as i128), nonunit: vec![] },
            Some(_) => Smith { rank: self.smith_z().rank, nonunit: vec![] },
            None => self.smith_z(),
        }
    }

    fn rank_mod(&self, p: i128) -> usize {
        let mut rows: Vec<BTreeMap<usize, i128>> = self.data.iter().map(|r| {
            r.iter().map(|(&j, &v)| (j, v.rem_euclid(p))).filter(|(_, v)| *v != 0).collect()
        }).collect();
        let inv = |a: i128| -> i128 {
            // Fermat
            let (mut r, mut b, mut e) = (1i128, a.rem_euclid(p), p - 2);
            while e > 0 { if e & 1 == 1 { r = r * b % p; } b = b * b % p; e >>= 1; }
            r
        };
        let mut rank = 0;
        loop {
            // pick the sparsest non-empty row
            let Some(pi) = (0..rows.len()).filter(|&i| !rows[i].is_empty()).min_by_key(|&i| rows[i].len()) else { break };
            let prow = std::mem::take(&mut rows[pi]);
            let (&pj, &pv) = prow.iter().next().unwrap();
            let pinv = inv(pv);
            for i in 0..rows.len() {
                let Some(&a) = rows[i].get(&pj) else { continue };
                let f = a * pinv % p;
                for (&j, &v) in &prow {
                    let e = rows[i].entry(j).or_insert(0);
                    *e = (*e - f * v).rem_euclid(p);
                    if *e == 0 { rows[i].remove(&j); }
                }
            }
            rank += 1;
        }
        rank
    }

    fn smith_z(&self) -> Smith {
        // phase 1: cancel unit pivots (Schur complement; the pivot row and column disappear)
        let mut rows = self.data.clone();
        let mut unit_rank = 0usize;
        loop {
            let mut best: Option<(usize, usize, usize)> = None; // (row len, i, j)
            for (i, r) in rows.iter().enumerate() {
                if r.is_empty() { continue; }
                if let Some((&j, _)) = r.iter().find(|(_, &v)| v == 1 || v == -1) {
                    if best.map(|(l, _, _)| r.len() < l).unwrap_or(true) {
                        best = Some((r.len(), i, j));
                    }
                }
            }
            let Some((_, pi, pj)) = best else { break };
            let prow = std::mem::take(&mut rows[pi]);
            let pv = prow[&pj]; // +-1, its own inverse
            for i in 0..rows.len() {
                let Some(&a) = rows[i].get(&pj) else { continue };
                let f = a.checked_mul(pv).expect("overflow");
                for (&j, &v) in &prow {
                    let e = rows[i].entry(j).or_insert(0);
                    *e = e.checked_sub(f.checked_mul(v).expect("i128 overflow in reference")).expect("i128 overflow in reference");
                    if *e == 0 { rows[i].remove(&j); }
                }
                debug_assert!(!rows[i].contains_key(&pj));
            }
            unit_rank += 1;
        }
        // phase 2: dense Smith form of what is left
        let live_rows: Vec<usize> = (0..rows.len()).filter(|&i| !rows[i].is_empty()).collect();
        let mut live_cols: Vec<usize> = live_rows.iter().flat_map(|&i| rows[i].keys().copied()).collect();
        live_cols.sort();
        live_cols.dedup();
        let cmap: BTreeMap<usize, usize> = live_cols.iter().enumerate().map(|(k, c)| (*c, k)).collect();
        let mut m = DM::<Z>::zero(live_rows.len(), live_cols.len());
        for (ii, &i) in live_rows.iter().enumerate() {
            for (&j, &v) in &rows[i] { m.set(ii, cmap[&j], Z(BigInt::from(v))); }
        }
        let diag = smith_diagonal(&m);
        let nonunit: Vec<BigInt> = diag.iter().filter(|d| !d.is_one()).cloned().collect();
        Smith { rank: unit_rank + diag.len(), nonunit }
    }
}

/// torsion orders -> prime powers (helper for callers comparing against invariant factors)
pub fn to_prime_powers(orders: &[BigInt]) -> Vec<(BigInt, u32)> {
    let mut v: Vec<(BigInt, u32)> = orders.iter().flat_map(prime_powers).collect();
    v.sort();
    v
}

#[cfg(test)]
mod tests {
    use super::*;

    fn bigr(pd: &[[u32; 4]], reduced: bool) -> BTreeMap<(i32, i32), String> {
        let dg = Diagram::from_pd(pd);
        let base = pd.first().map(|x| *x.iter().min().unwrap());
        let c = Cube::new(&dg, 0, 0, reduced, base).unwrap();
        assert!(c.check_dd());
        c.homology_bigraded(None).into_iter().map(|(k, v)| (k, v.describe())).collect()
    }

    #[test]
    fn trefoil() {
        // yui's Link::trefoil() PD (left-handed)
        let pd = [[1, 4, 2, 5], [3, 6, 4, 1], [5, 2, 6, 3]];
        let h = bigr(&pd, false);
        println!("{h:?}");
        let dg = Diagram::from_pd(&pd);
        let o = dg.orientation().unwrap();
        println!("signs {:?}", o.signs);
        // either chirality: 4 free generators and one Z/2
        assert_eq!(h.len(), 5);
        assert_eq!(h.values().filter(|v| v.as_str() == "Z^1").count(), 4);
        assert_eq!(h.values().filter(|v| v.as_str() == "Z/2^1").count(), 1);
        let neg = o.signs.iter().all(|&s| s == -1);
        if neg {
            assert_eq!(h[&(0, -1)], "Z^1");
            assert_eq!(h[&(0, -3)], "Z^1");
            assert_eq!(h[&(-2, -5)], "Z^1");
            assert_eq!(h[&(-3, -9)], "Z^1");
            assert_eq!(h[&(-2, -7)], "Z/2^1");
        } else {
            assert_eq!(h[&(0, 1)], "Z^1");
            assert_eq!(h[&(0, 3)], "Z^1");
            assert_eq!(h[&(2, 5)], "Z^1");
            assert_eq!(h[&(3, 9)], "Z^1");
            assert_eq!(h[&(3, 7)], "Z/2^1");
        }
        let r = bigr(&pd, true);
        println!("{r:?}");
        assert_eq!(r.len(), 3);
    }

    #[test]
    fn hopf_and_unknots() {
        let hopf = [[4, 1, 3, 2], [2, 3, 1, 4]];
        let h = bigr(&hopf, false);
        println!("{h:?}");
        assert_eq!(h.values().map(|v| v.as_str()).collect::<Vec<_>>().len(), 4);
        // kinked unknots
        for pd in [[[1, 2, 2, 1]], [[1, 1, 2, 2]], [[2, 2, 1, 1]], [[2, 1, 1, 2]]] {
            let h = bigr(&pd, false);
            assert_eq!(h.len(), 2, "{pd:?} -> {h:?}");
            assert_eq!(h[&(0, 1)], "Z^1");
            assert_eq!(h[&(0, -1)], "Z^1");
        }
        // empty link: Z in (0,0)
        let e = bigr(&[], false);
        assert_eq!(e.len(), 1);
        assert_eq!(e[&(0, 0)], "Z^1");
    }

    #[test]
    fn lee_and_bn_ranks() {
        let pd = [[1, 4, 2, 5], [3, 6, 4, 1], [5, 2, 6, 3]];
        let dg = Diagram::from_pd(&pd);
        for (h, t) in [(1, 0), (0, 1), (2, 0), (3, 0), (1, 1), (-1, 2)] {
            let c = Cube::new(&dg, h, t, false, None).unwrap();
            assert!(c.check_dd(), "dd != 0 for {h},{t}");
            let hq = c.homology(Some(0));
            let total: usize = hq.values().map(|v| v.rank).sum();
            // discriminant h^2+4t != 0 => rank 2^components over Q
            if h * h + 4 * t != 0 { assert_eq!(total, 2, "(h,t)=({h},{t}): {hq:?}"); }
        }
        let fig8 = [[4, 2, 5, 1], [8, 6, 1, 5], [6, 3, 7, 4], [2, 7, 3, 8]];
        let h = bigr(&fig8, false);
        println!("fig8 {h:?}");
        assert_eq!(h.values().filter(|v| v.starts_with("Z^")).count(), 6);
        assert_eq!(h.values().filter(|v| v.starts_with("Z/2")).count(), 2);
    }
}

#[cfg(test)]
mod timing {
    use super::*;
    #[test]
    #[ignore]
    fn reference_cost() {
        let k10: [[u32; 4]; 10] = [[4, 2, 5, 1], [8, 4, 9, 3], [9, 15, 10, 14], [5, 13, 6, 12], [13, 7, 14, 6], [11, 19, 12, 18], [15, 1, 16, 20], [19, 11, 20, 10], [2, 8, 3, 7], [17, 17, 18, 16]];
        for n in [8usize, 9, 10] {
            let pd = &k10[..n];
            // not a link for n < 10: only time the valid one
            if n < 10 { continue; }
            let t = std::time::Instant::now();
            let dg = Diagram::from_pd(pd);
            if dg.orientation().is_err() { println!("invalid"); continue; }
            let c = Cube::new(&dg, 0, 0, false, None).unwrap();
            println!("n={n} gens={} build {:?}", c.total_generators(), t.elapsed());
            let t = std::time::Instant::now();
            let h = c.homology_bigraded(None);
            println!("  bigraded Z: {} cells {:?}", h.len(), t.elapsed());
            let t = std::time::Instant::now();
            let c1 = Cube::new(&dg, 1, 1, false, None).unwrap();
            let h = c1.homology(None);
            println!("  (1,1) Z: {} degrees {:?}", h.len(), t.elapsed());
            let t = std::time::Instant::now();
            let h = c1.homology(Some(3));
            println!("  (1,1) F3: {} degrees {:?}", h.len(), t.elapsed());
        }
    }
}
