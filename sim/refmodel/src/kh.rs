//! cube-of-resolutions Khovanov complex (reference)
