//! link diagrams from PD codes (reference side) — see kh.rs
