//! Link diagrams from PD codes, reference side.  Written from the planar-diagram conventions
//! (KnotTheory): a crossing X[a,b,c,d] lists its four edges counter-clockwise starting from the
//! incoming under-strand a; the under-strand runs a -> c, the over-strand joins b and d.
//!
//!   * 0-smoothing joins (a,b) and (c,d); 1-smoothing joins (a,d) and (b,c)
//!     (derived: at a positive crossing the over-strand runs d -> b, the oriented smoothing then
//!     joins the incoming a with the outgoing b and the incoming d with the outgoing c, and the
//!     oriented smoothing of a positive crossing is its 0-smoothing);
//!   * a crossing is positive iff its over-strand runs d -> b.

use std::collections::BTreeMap;

pub type Edge = u32;

#[derive(Clone, Debug, PartialEq, Eq)]
pub struct Crossing {
    pub e: [Edge; 4],
    /// Some(b): the crossing is already resolved by the b-smoothing (contributes no cube
    /// coordinate and no degree shift)
    pub resolved: Option<u8>,
}

#[derive(Clone, Debug, PartialEq, Eq)]
pub struct Diagram {
    pub xs: Vec<Crossing>,
}

#[derive(Clone, Debug, PartialEq, Eq)]
pub enum PdError {
    /// an edge label does not occur exactly twice
    BadMultiplicity(Edge, usize),
    /// the under-strand directions along one component contradict each other
    InconsistentOrientation,
}

#[derive(Clone, Debug)]
pub struct Orientation {
    /// +1 / -1 per crossing (0 for resolved crossings)
    pub signs: Vec<i32>,
    pub n_plus: usize,
    pub n_minus: usize,
    /// number of link components
    pub components: usize,
    /// some component never passes under a crossing: its orientation is a free choice
    pub ambiguous: bool,
    /// edge -> component index
    pub comp_of: BTreeMap<Edge, usize>,
    /// edge -> (crossing, slot) the edge points into
    pub head: BTreeMap<Edge, (usize, usize)>,
    /// edge -> (crossing, slot) the edge leaves from
    pub tail: BTreeMap<Edge, (usize, usize)>,
    /// components whose orientation is a free choice (they never pass under a crossing)
    pub ambiguous_comps: Vec<usize>,
}

impl Diagram {
    pub fn from_pd(pd: &[[Edge; 4]]) -> Self {
        Diagram { xs: pd.iter().map(|&e| Crossing { e, resolved: None }).collect() }
    }

    pub fn edges(&self) -> Vec<Edge> {
        let mut v: Vec<Edge> = self.xs.iter().flat_map(|x| x.e).collect();
        v.sort();
        v.dedup();
        v
    }

    pub fn validate(&self) -> Result<(), PdError> {
        let mut count: BTreeMap<Edge, usize> = BTreeMap::new();
        for x in &self.xs {
            for e in x.e {
                *count.entry(e).or_insert(0) += 1;
            }
        }
        for (e, c) in count {
            if c != 2 {
                return Err(PdError::BadMultiplicity(e, c));
            }
        }
        Ok(())
    }

    pub fn n_unresolved(&self) -> usize {
        self.xs.iter().filter(|x| x.resolved.is_none()).count()
    }

    pub fn mirror(&self) -> Diagram {
        // mirror image: every crossing X[a,b,c,d] becomes X[b,c,d,a]... expressed with the same
        // edge labels the under-strand of the mirrored crossing is the old over-strand.  Which of
        // the two rotations keeps "incoming under-strand first" depends on the over direction, so
        // the mirror needs the orientation.
        let o = self.orientation().expect("mirror of a valid diagram");
        Diagram {
            xs: self.xs.iter().zip(&o.signs).map(|(x, &s)| {
                let [a, b, c, d] = x.e;
                let e = match s {
                    // positive: over runs d -> b; new under-strand d -> b, listing counter-clockwise from d
                    1 => [d, a, b, c],
                    // negative: over runs b -> d
                    -1 => [b, c, d, a],
                    _ => x.e,
                };
                Crossing { e, resolved: x.resolved }
            }).collect(),
        }
    }

    /// The diagram with crossing `k` switched (over <-> under).
    pub fn switch_crossing(&self, k: usize) -> Diagram {
        let o = self.orientation().expect("valid diagram");
        let mut d = self.clone();
        let [a, b, c, dd] = d.xs[k].e;
        d.xs[k].e = match o.signs[k] {
            1 => [dd, a, b, c],
            -1 => [b, c, dd, a],
            _ => d.xs[k].e,
        };
        d
    }

    pub fn pd(&self) -> Vec<[Edge; 4]> {
        self.xs.iter().map(|x| x.e).collect()
    }

    /// Orient every component by its under-strands (edge at slot 0 points into the crossing, edge
    /// at slot 2 out of it) and derive the crossing signs.
    pub fn orientation(&self) -> Result<Orientation, PdError> {
        self.validate()?;
        // slots: (crossing index, position)
        let mut ends: BTreeMap<Edge, Vec<(usize, usize)>> = BTreeMap::new();
        for (ci, x) in self.xs.iter().enumerate() {
            for (p, e) in x.e.iter().enumerate() {
                ends.entry(*e).or_default().push((ci, p));
            }
        }
        // through-pairing at a crossing: unresolved 0<->2, 1<->3; resolved by b: 0-smoothing pairs
        // (0,1),(2,3), 1-smoothing pairs (0,3),(1,2)
        let through = |ci: usize, p: usize| -> usize {
            match self.xs[ci].resolved {
                None => (p + 2) % 4,
                Some(0) => [1, 0, 3, 2][p],
                Some(_) => [3, 2, 1, 0][p],
            }
        };
        // head[e] = Some(slot) when e is known to point INTO that slot
        let mut head: BTreeMap<Edge, (usize, usize)> = BTreeMap::new();
        let mut tail_of: BTreeMap<Edge, (usize, usize)> = BTreeMap::new();
        let mut ambiguous_comps: Vec<usize> = vec![];
        let mut comp_of: BTreeMap<Edge, usize> = BTreeMap::new();
        let mut ambiguous = false;
        let mut components = 0;
        for &start in ends.keys() {
            if comp_of.contains_key(&start) {
                continue;
            }
            // walk the component from `start`, leaving through its first listed end
            let mut walk: Vec<(Edge, (usize, usize), (usize, usize))> = vec![]; // (edge, tail slot, head slot) in walking direction
            let mut e = start;
            let mut from = ends[&e][0];
            loop {
                let es = &ends[&e];
                // the other end of e (for an edge whose two ends coincide as slots this cannot happen: slots are distinct)
                let to = if es[0] == from { es[1] } else { es[0] };
                walk.push((e, from, to));
                comp_of.insert(e, components);
                let out = (to.0, through(to.0, to.1));
                let next = self.xs[out.0].e[out.1];
                e = next;
                from = out;
                if e == start && from == ends[&start][0] {
                    break;
                }
                if walk.len() > 4 * self.xs.len() + 4 {
                    return Err(PdError::InconsistentOrientation);
                }
            }
            // votes: does the walking direction agree with the under-strand directions?
            let (mut agree, mut disagree) = (0, 0);
            for &(_, tail, hd) in &walk {
                for (slot, is_head) in [(hd, true), (tail, false)] {
                    if self.xs[slot.0].resolved.is_some() {
                        continue;
                    }
                    match (slot.1, is_head) {
                        (0, true) | (2, false) => agree += 1,    // enters by slot 0 / leaves by slot 2
                        (0, false) | (2, true) => disagree += 1,
                        _ => {}
                    }
                }
            }
            if agree > 0 && disagree > 0 {
                return Err(PdError::InconsistentOrientation);
            }
            if agree == 0 && disagree == 0 {
                ambiguous = true;
                ambiguous_comps.push(components);
            }
            for &(e, tail, hd) in &walk {
                head.insert(e, if disagree > 0 { tail } else { hd });
                tail_of.insert(e, if disagree > 0 { hd } else { tail });
            }
            components += 1;
        }
        let signs = self.signs_from_heads(&head);
        let n_plus = signs.iter().filter(|&&s| s == 1).count();
        let n_minus = signs.iter().filter(|&&s| s == -1).count();
        Ok(Orientation { signs, n_plus, n_minus, components, ambiguous, comp_of, head, tail: tail_of, ambiguous_comps })
    }

    fn signs_from_heads(&self, head: &BTreeMap<Edge, (usize, usize)>) -> Vec<i32> {
        self.xs.iter().enumerate().map(|(ci, x)| {
            if x.resolved.is_some() {
                0
            } else if head[&x.e[3]] == (ci, 3) {
                1 // the over-strand runs d -> b
            } else {
                -1
            }
        }).collect()
    }

    /// The orientation with the given (ambiguous) components reversed.
    pub fn orientation_flipped(&self, flips: &[usize]) -> Result<Orientation, PdError> {
        let mut o = self.orientation()?;
        for (e, c) in o.comp_of.clone() {
            if flips.contains(&c) {
                let (h, t) = (o.head[&e], o.tail[&e]);
                o.head.insert(e, t);
                o.tail.insert(e, h);
            }
        }
        o.signs = self.signs_from_heads(&o.head);
        o.n_plus = o.signs.iter().filter(|&&s| s == 1).count();
        o.n_minus = o.signs.iter().filter(|&&s| s == -1).count();
        Ok(o)
    }

    /// Circles (as sorted edge sets, ordered by smallest edge) of the complete resolution given by
    /// `bits` (one bit per *unresolved* crossing, in order).
    pub fn circles(&self, bits: u64) -> Vec<Vec<Edge>> {
        let edges = self.edges();
        let idx: BTreeMap<Edge, usize> = edges.iter().enumerate().map(|(i, e)| (*e, i)).collect();
        let mut parent: Vec<usize> = (0..edges.len()).collect();
        fn find(p: &mut Vec<usize>, x: usize) -> usize {
            let mut r = x;
            while p[r] != r { r = p[r]; }
            let mut y = x;
            while p[y] != r { let n = p[y]; p[y] = r; y = n; }
            r
        }
        let mut k = 0;
        for x in &self.xs {
            let b = match x.resolved {
                Some(b) => b as u64,
                None => { let b = (bits >> k) & 1; k += 1; b }
            };
            let [a, bb, c, d] = x.e;
            let pairs = if b == 0 { [(a, bb), (c, d)] } else { [(a, d), (bb, c)] };
            for (u, v) in pairs {
                let (ru, rv) = (find(&mut parent, idx[&u]), find(&mut parent, idx[&v]));
                if ru != rv { parent[ru.max(rv)] = ru.min(rv); }
            }
        }
        let mut groups: BTreeMap<usize, Vec<Edge>> = BTreeMap::new();
        for (i, e) in edges.iter().enumerate() {
            let r = find(&mut parent, i);
            groups.entry(r).or_default().push(*e);
        }
        let mut cs: Vec<Vec<Edge>> = groups.into_values().collect();
        cs.sort();
        cs
    }
}
