//! Exact reference rings: Z (BigInt), Q (normalised BigInt fraction), F_p, and polynomial rings
//! in up to two variables over any of those (dense coefficient tables).

use num_bigint::BigInt;
use num_integer::Integer;
use num_traits::{One, Signed, Zero};
use std::fmt::Debug;

pub trait RefRing: Clone + Debug + PartialEq {
    fn zero() -> Self;
    fn one() -> Self;
    fn add(&self, o: &Self) -> Self;
    fn neg(&self) -> Self;
    fn mul(&self, o: &Self) -> Self;
    fn is_zero(&self) -> bool;
    /// multiplicative inverse if the element is a unit
    fn inv(&self) -> Option<Self>;

    fn sub(&self, o: &Self) -> Self {
        self.add(&o.neg())
    }
    fn is_unit(&self) -> bool {
        self.inv().is_some()
    }
    fn is_one(&self) -> bool {
        *self == Self::one()
    }
    fn is_pm_one(&self) -> bool {
        self.is_one() || self.neg().is_one()
    }
    fn from_i64(x: i64) -> Self;
    /// true iff the ring is a field (rank computations by Gaussian elimination are then exact)
    fn is_field() -> bool;
}

// --- Z -------------------------------------------------------------------------------------------

#[derive(Clone, Debug, PartialEq, Eq, PartialOrd, Ord, Hash)]
pub struct Z(pub BigInt);

impl RefRing for Z {
    fn zero() -> Self {
        Z(BigInt::zero())
    }
    fn one() -> Self {
        Z(BigInt::one())
    }
    fn add(&self, o: &Self) -> Self {
        Z(&self.0 + &o.0)
    }
    fn neg(&self) -> Self {
        Z(-&self.0)
    }
    fn mul(&self, o: &Self) -> Self {
        Z(&self.0 * &o.0)
    }
    fn is_zero(&self) -> bool {
        self.0.is_zero()
    }
    fn inv(&self) -> Option<Self> {
        if self.0.is_one() || (-&self.0).is_one() {
            Some(self.clone())
        } else {
            None
        }
    }
    fn from_i64(x: i64) -> Self {
        Z(BigInt::from(x))
    }
    fn is_field() -> bool {
        false
    }
}

// --- Q -------------------------------------------------------------------------------------------

#[derive(Clone, Debug, PartialEq, Eq, Hash)]
pub struct Q {
    pub n: BigInt,
    pub d: BigInt, // > 0, gcd(n, d) = 1
}

impl Q {
    pub fn new(n: BigInt, d: BigInt) -> Q {
        assert!(!d.is_zero());
        let g = n.gcd(&d);
        let (mut n, mut d) = (n / &g, d / &g);
        if d.is_negative() {
            n = -n;
            d = -d;
        }
        Q { n, d }
    }
    pub fn from_ints(n: i64, d: i64) -> Q {
        Q::new(BigInt::from(n), BigInt::from(d))
    }
}

impl RefRing for Q {
    fn zero() -> Self {
        Q { n: BigInt::zero(), d: BigInt::one() }
    }
    fn one() -> Self {
        Q { n: BigInt::one(), d: BigInt::one() }
    }
    fn add(&self, o: &Self) -> Self {
        Q::new(&self.n * &o.d + &o.n * &self.d, &self.d * &o.d)
    }
    fn neg(&self) -> Self {
        Q { n: -&self.n, d: self.d.clone() }
    }
    fn mul(&self, o: &Self) -> Self {
        Q::new(&self.n * &o.n, &self.d * &o.d)
    }
    fn is_zero(&self) -> bool {
        self.n.is_zero()
    }
    fn inv(&self) -> Option<Self> {
        if self.n.is_zero() {
            None
        } else {
            Some(Q::new(self.d.clone(), self.n.clone()))
        }
    }
    fn from_i64(x: i64) -> Self {
        Q { n: BigInt::from(x), d: BigInt::one() }
    }
    fn is_field() -> bool {
        true
    }
}

// --- F_p -----------------------------------------------------------------------------------------

#[derive(Clone, Copy, Debug, PartialEq, Eq, Hash)]
pub struct Fp<const P: u32>(pub u32);

impl<const P: u32> Fp<P> {
    pub fn new(x: i64) -> Self {
        Fp(x.rem_euclid(P as i64) as u32)
    }
}

impl<const P: u32> RefRing for Fp<P> {
    fn zero() -> Self {
        Fp(0)
    }
    fn one() -> Self {
        Fp(1 % P)
    }
    fn add(&self, o: &Self) -> Self {
        Fp((self.0 + o.0) % P)
    }
    fn neg(&self) -> Self {
        Fp((P - self.0) % P)
    }
    fn mul(&self, o: &Self) -> Self {
        Fp(((self.0 as u64 * o.0 as u64) % P as u64) as u32)
    }
    fn is_zero(&self) -> bool {
        self.0 == 0
    }
    fn inv(&self) -> Option<Self> {
        if self.0 == 0 {
            return None;
        }
        // Fermat
        let mut r = Fp::<P>(1);
        let mut b = *self;
        let mut e = P - 2;
        while e > 0 {
            if e & 1 == 1 {
                r = r.mul(&b);
            }
            b = b.mul(&b);
            e >>= 1;
        }
        Some(r)
    }
    fn from_i64(x: i64) -> Self {
        Fp::new(x)
    }
    fn is_field() -> bool {
        true
    }
}

// --- polynomials in two variables (H, T) over R -------------------------------------------------
// Stored as a sorted list of ((eh, et), coeff), no zero coefficients.  Used for Z[H], Z[T], Z[H,T],
// Q[H], F2[H] alike (a univariate polynomial simply never uses the other exponent).

#[derive(Clone, Debug, PartialEq)]
pub struct Poly2<R: RefRing>(pub Vec<((u32, u32), R)>);

impl<R: RefRing> Poly2<R> {
    pub fn constant(c: R) -> Self {
        if c.is_zero() {
            Poly2(vec![])
        } else {
            Poly2(vec![((0, 0), c)])
        }
    }
    pub fn mono(eh: u32, et: u32, c: R) -> Self {
        if c.is_zero() {
            Poly2(vec![])
        } else {
            Poly2(vec![((eh, et), c)])
        }
    }
    pub fn var_h() -> Self {
        Self::mono(1, 0, R::one())
    }
    pub fn var_t() -> Self {
        Self::mono(0, 1, R::one())
    }
    fn normalise(mut v: Vec<((u32, u32), R)>) -> Self {
        v.sort_by(|a, b| a.0.cmp(&b.0));
        let mut out: Vec<((u32, u32), R)> = vec![];
        for (e, c) in v {
            match out.last_mut() {
                Some((e2, c2)) if *e2 == e => *c2 = c2.add(&c),
                _ => out.push((e, c)),
            }
        }
        out.retain(|(_, c)| !c.is_zero());
        Poly2(out)
    }
    pub fn eval(&self, h: &R, t: &R) -> R {
        let mut s = R::zero();
        for ((eh, et), c) in &self.0 {
            let mut m = c.clone();
            for _ in 0..*eh {
                m = m.mul(h);
            }
            for _ in 0..*et {
                m = m.mul(t);
            }
            s = s.add(&m);
        }
        s
    }
    /// every term has the same weighted degree -2*eh - 4*et; returns it (None for 0)
    pub fn homogeneous_degree(&self) -> Result<Option<i32>, ()> {
        let mut deg = None;
        for ((eh, et), _) in &self.0 {
            let d = -2 * (*eh as i32) - 4 * (*et as i32);
            match deg {
                None => deg = Some(d),
                Some(d0) if d0 != d => return Err(()),
                _ => {}
            }
        }
        Ok(deg)
    }
}

impl<R: RefRing> RefRing for Poly2<R> {
    fn zero() -> Self {
        Poly2(vec![])
    }
    fn one() -> Self {
        Self::constant(R::one())
    }
    fn add(&self, o: &Self) -> Self {
        let mut v = self.0.clone();
        v.extend(o.0.iter().cloned());
        Self::normalise(v)
    }
    fn neg(&self) -> Self {
        Poly2(self.0.iter().map(|(e, c)| (*e, c.neg())).collect())
    }
    fn mul(&self, o: &Self) -> Self {
        let mut v = Vec::with_capacity(self.0.len() * o.0.len());
        for ((a, b), c) in &self.0 {
            for ((a2, b2), c2) in &o.0 {
                v.push(((a + a2, b + b2), c.mul(c2)));
            }
        }
        Self::normalise(v)
    }
    fn is_zero(&self) -> bool {
        self.0.is_empty()
    }
    fn inv(&self) -> Option<Self> {
        // units of R[H,T] for a domain R are the units of R
        match self.0.as_slice() {
            [((0, 0), c)] => c.inv().map(Self::constant),
            _ => None,
        }
    }
    fn from_i64(x: i64) -> Self {
        Self::constant(R::from_i64(x))
    }
    fn is_field() -> bool {
        false
    }
}

// --- Gaussian integers (unit diagonals other than +-1 over Z[i], property C12) -------------------

#[derive(Clone, Debug, PartialEq, Eq, Hash)]
pub struct GaussZ(pub BigInt, pub BigInt);

impl RefRing for GaussZ {
    fn zero() -> Self {
        GaussZ(BigInt::zero(), BigInt::zero())
    }
    fn one() -> Self {
        GaussZ(BigInt::one(), BigInt::zero())
    }
    fn add(&self, o: &Self) -> Self {
        GaussZ(&self.0 + &o.0, &self.1 + &o.1)
    }
    fn neg(&self) -> Self {
        GaussZ(-&self.0, -&self.1)
    }
    fn mul(&self, o: &Self) -> Self {
        GaussZ(&self.0 * &o.0 - &self.1 * &o.1, &self.0 * &o.1 + &self.1 * &o.0)
    }
    fn is_zero(&self) -> bool {
        self.0.is_zero() && self.1.is_zero()
    }
    fn inv(&self) -> Option<Self> {
        let n = &self.0 * &self.0 + &self.1 * &self.1;
        if n.is_one() {
            Some(GaussZ(self.0.clone(), -&self.1))
        } else {
            None
        }
    }
    fn from_i64(x: i64) -> Self {
        GaussZ(BigInt::from(x), BigInt::zero())
    }
    fn is_field() -> bool {
        false
    }
}
