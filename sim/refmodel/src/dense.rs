//! Dense exact matrices over a reference ring, rank over fields, Smith invariants over Z,
//! and homology of a pair of composable maps.

use crate::ring::*;
use num_bigint::BigInt;
use num_integer::Integer;
use num_traits::{One, Signed, Zero};

#[derive(Clone, Debug, PartialEq)]
pub struct DM<R: RefRing> {
    pub rows: usize,
    pub cols: usize,
    pub data: Vec<R>, // row-major
}

impl<R: RefRing> DM<R> {
    pub fn zero(rows: usize, cols: usize) -> Self {
        DM { rows, cols, data: vec![R::zero(); rows * cols] }
    }
    pub fn id(n: usize) -> Self {
        let mut m = Self::zero(n, n);
        for i in 0..n {
            m.set(i, i, R::one());
        }
        m
    }
    pub fn from_entries(rows: usize, cols: usize, es: impl IntoIterator<Item = (usize, usize, R)>) -> Self {
        let mut m = Self::zero(rows, cols);
        for (i, j, r) in es {
            assert!(i < rows && j < cols, "entry ({i},{j}) outside {rows}x{cols}");
            // duplicate coordinates accumulate (triplet semantics)
            let v = m.get(i, j).add(&r);
            m.set(i, j, v);
        }
        m
    }
    #[inline]
    pub fn get(&self, i: usize, j: usize) -> &R {
        &self.data[i * self.cols + j]
    }
    #[inline]
    pub fn set(&mut self, i: usize, j: usize, r: R) {
        self.data[i * self.cols + j] = r;
    }
    pub fn is_zero(&self) -> bool {
        self.data.iter().all(|x| x.is_zero())
    }
    pub fn is_id(&self) -> bool {
        self.rows == self.cols && *self == Self::id(self.rows)
    }
    pub fn transpose(&self) -> Self {
        let mut t = Self::zero(self.cols, self.rows);
        for i in 0..self.rows {
            for j in 0..self.cols {
                t.set(j, i, self.get(i, j).clone());
            }
        }
        t
    }
    pub fn mul(&self, o: &Self) -> Self {
        assert_eq!(self.cols, o.rows, "shape mismatch in product: {}x{} * {}x{}", self.rows, self.cols, o.rows, o.cols);
        let mut m = Self::zero(self.rows, o.cols);
        for i in 0..self.rows {
            for k in 0..self.cols {
                let a = self.get(i, k);
                if a.is_zero() {
                    continue;
                }
                for j in 0..o.cols {
                    let b = o.get(k, j);
                    if b.is_zero() {
                        continue;
                    }
                    let v = m.get(i, j).add(&a.mul(b));
                    m.set(i, j, v);
                }
            }
        }
        m
    }
    pub fn add(&self, o: &Self) -> Self {
        assert_eq!((self.rows, self.cols), (o.rows, o.cols));
        DM { rows: self.rows, cols: self.cols, data: self.data.iter().zip(&o.data).map(|(a, b)| a.add(b)).collect() }
    }
    pub fn sub(&self, o: &Self) -> Self {
        assert_eq!((self.rows, self.cols), (o.rows, o.cols));
        DM { rows: self.rows, cols: self.cols, data: self.data.iter().zip(&o.data).map(|(a, b)| a.sub(b)).collect() }
    }
    pub fn neg(&self) -> Self {
        DM { rows: self.rows, cols: self.cols, data: self.data.iter().map(|a| a.neg()).collect() }
    }
    pub fn sub_block(&self, r: std::ops::Range<usize>, c: std::ops::Range<usize>) -> Self {
        let mut m = Self::zero(r.len(), c.len());
        for (ii, i) in r.clone().enumerate() {
            for (jj, j) in c.clone().enumerate() {
                m.set(ii, jj, self.get(i, j).clone());
            }
        }
        m
    }
    /// B[i][j] = A[rows[i]][cols[j]]
    pub fn select(&self, rows: &[usize], cols: &[usize]) -> Self {
        let mut m = Self::zero(rows.len(), cols.len());
        for (ii, &i) in rows.iter().enumerate() {
            for (jj, &j) in cols.iter().enumerate() {
                m.set(ii, jj, self.get(i, j).clone());
            }
        }
        m
    }
    pub fn map<S: RefRing>(&self, f: impl Fn(&R) -> S) -> DM<S> {
        DM { rows: self.rows, cols: self.cols, data: self.data.iter().map(f).collect() }
    }
    pub fn nnz(&self) -> usize {
        self.data.iter().filter(|x| !x.is_zero()).count()
    }

    /// rank by Gaussian elimination; exact when R is a field
    pub fn rank_field(&self) -> usize {
        assert!(R::is_field());
        let mut a = self.clone();
        let (m, n) = (a.rows, a.cols);
        let mut r = 0;
        for c in 0..n {
            if r == m {
                break;
            }
            let Some(p) = (r..m).find(|&i| !a.get(i, c).is_zero()) else { continue };
            if p != r {
                for j in 0..n {
                    let (x, y) = (a.get(p, j).clone(), a.get(r, j).clone());
                    a.set(p, j, y);
                    a.set(r, j, x);
                }
            }
            let pinv = a.get(r, c).inv().unwrap();
            for i in (r + 1)..m {
                if a.get(i, c).is_zero() {
                    continue;
                }
                let f = a.get(i, c).mul(&pinv);
                for j in c..n {
                    let v = a.get(i, j).sub(&f.mul(a.get(r, j)));
                    a.set(i, j, v);
                }
            }
            r += 1;
        }
        r
    }

    /// Solve L x = y for unit-diagonal (diagonal entries are units) triangular L by substitution.
    /// `upper` selects back substitution.  Returns None when a diagonal entry is not a unit.
    pub fn solve_triangular(&self, upper: bool, y: &DM<R>) -> Option<DM<R>> {
        assert_eq!(self.rows, self.cols);
        assert_eq!(self.rows, y.rows);
        let n = self.rows;
        let mut x = DM::zero(n, y.cols);
        for c in 0..y.cols {
            let order: Vec<usize> = if upper { (0..n).rev().collect() } else { (0..n).collect() };
            for &i in &order {
                let mut s = y.get(i, c).clone();
                for k in 0..n {
                    if k == i {
                        continue;
                    }
                    let a = self.get(i, k);
                    if !a.is_zero() {
                        s = s.sub(&a.mul(x.get(k, c)));
                    }
                }
                let u = self.get(i, i).inv()?;
                x.set(i, c, u.mul(&s));
            }
        }
        Some(x)
    }
}

// --- Smith invariants over Z ---------------------------------------------------------------------

/// Returns the non-zero diagonal of the Smith normal form (positive, each dividing the next).
pub fn smith_diagonal(a: &DM<Z>) -> Vec<BigInt> {
    let (m, n) = (a.rows, a.cols);
    let mut x: Vec<Vec<BigInt>> = (0..m).map(|i| (0..n).map(|j| a.get(i, j).0.clone()).collect()).collect();
    let mut diag = vec![];
    let mut t = 0;
    while t < m.min(n) {
        // find the non-zero entry of smallest absolute value in the remaining block
        let mut best: Option<(usize, usize)> = None;
        for i in t..m {
            for j in t..n {
                if x[i][j].is_zero() {
                    continue;
                }
                if best.map(|(bi, bj)| x[i][j].abs() < x[bi][bj].abs()).unwrap_or(true) {
                    best = Some((i, j));
                }
            }
        }
        let Some((pi, pj)) = best else { break };
        x.swap(t, pi);
        for row in x.iter_mut() {
            row.swap(t, pj);
        }
        loop {
            let p = x[t][t].clone();
            let mut dirty = false;
            for i in (t + 1)..m {
                if x[i][t].is_zero() {
                    continue;
                }
                let q = x[i][t].div_floor(&p);
                for j in t..n {
                    let v = &x[i][j] - &q * &x[t][j];
                    x[i][j] = v;
                }
                if !x[i][t].is_zero() {
                    x.swap(t, i);
                    dirty = true;
                    break;
                }
            }
            if dirty {
                continue;
            }
            for j in (t + 1)..n {
                if x[t][j].is_zero() {
                    continue;
                }
                let q = x[t][j].div_floor(&p);
                for i in t..m {
                    let v = &x[i][j] - &q * &x[i][t];
                    x[i][j] = v;
                }
                if !x[t][j].is_zero() {
                    for row in x.iter_mut() {
                        row.swap(t, j);
                    }
                    dirty = true;
                    break;
                }
            }
            if dirty {
                continue;
            }
            // row and column t are clear; enforce divisibility of the rest by the pivot
            let p = x[t][t].clone();
            let mut bad = None;
            'outer: for i in (t + 1)..m {
                for j in (t + 1)..n {
                    if !(&x[i][j] % &p).is_zero() {
                        bad = Some(i);
                        break 'outer;
                    }
                }
            }
            match bad {
                Some(i) => {
                    for j in t..n {
                        let v = &x[t][j] + &x[i][j];
                        x[t][j] = v;
                    }
                }
                None => break,
            }
        }
        diag.push(x[t][t].abs());
        t += 1;
    }
    diag
}

/// Isomorphism type of a finitely generated module: free rank + multiset of prime-power orders.
#[derive(Clone, Debug, PartialEq, Eq, PartialOrd, Ord, Hash, Default)]
pub struct IsoType {
    pub rank: usize,
    /// sorted list of (prime, exponent)
    pub tors: Vec<(BigInt, u32)>,
}

impl IsoType {
    pub fn free(rank: usize) -> Self {
        IsoType { rank, tors: vec![] }
    }
    pub fn is_zero(&self) -> bool {
        self.rank == 0 && self.tors.is_empty()
    }
    /// from free rank and arbitrary torsion orders (not necessarily a divisibility chain)
    pub fn from_orders(rank: usize, orders: impl IntoIterator<Item = BigInt>) -> Self {
        let mut tors = vec![];
        for o in orders {
            let o = o.abs();
            assert!(!o.is_zero());
            tors.extend(prime_powers(&o));
        }
        tors.sort();
        IsoType { rank, tors }
    }
    pub fn describe(&self) -> String {
        let mut parts = vec![];
        if self.rank > 0 {
            parts.push(format!("Z^{}", self.rank));
        }
        for (p, e) in &self.tors {
            parts.push(format!("Z/{}^{}", p, e));
        }
        if parts.is_empty() {
            "0".into()
        } else {
            parts.join("+")
        }
    }
    /// number of torsion summands whose order is divisible by the prime p
    pub fn tors_divisible_by(&self, p: u32) -> usize {
        self.tors.iter().filter(|(q, _)| *q == BigInt::from(p)).count()
    }
}

/// Prime-power decomposition by trial division up to 2^16.  A cofactor that survives (only
/// possible for orders beyond 2^32, which Khovanov torsion never reaches) is kept as one opaque
/// factor: Smith diagonals are canonical chains, so two isomorphic modules described by their
/// Smith diagonals still get equal lists.
pub fn prime_powers(n: &BigInt) -> Vec<(BigInt, u32)> {
    let mut n = n.abs();
    let mut out = vec![];
    let mut p = 2u32;
    while p < (1 << 16) && BigInt::from(p) * BigInt::from(p) <= n {
        let bp = BigInt::from(p);
        let mut e = 0;
        while (&n % &bp).is_zero() {
            n /= &bp;
            e += 1;
        }
        if e > 0 {
            out.push((bp, e));
        }
        p += if p == 2 { 1 } else { 2 };
    }
    if !n.is_one() {
        out.push((n, 1));
    }
    out
}

/// Homology ker(d_out)/im(d_in) at a module of rank n over Z.
/// d_in: n x k  (columns = images of the previous module), d_out: l x n.
pub fn homology_z(n: usize, d_in: Option<&DM<Z>>, d_out: Option<&DM<Z>>) -> IsoType {
    let din_diag = d_in.map(|d| {
        assert_eq!(d.rows, n);
        smith_diagonal(d)
    }).unwrap_or_default();
    let rank_out = d_out.map(|d| {
        assert_eq!(d.cols, n);
        smith_diagonal(d).len()
    }).unwrap_or(0);
    let rank_in = din_diag.len();
    assert!(n >= rank_in + rank_out, "d∘d != 0 in reference complex?");
    IsoType::from_orders(n - rank_in - rank_out, din_diag.into_iter().filter(|d| !d.is_one()))
}

pub fn homology_field<R: RefRing>(n: usize, d_in: Option<&DM<R>>, d_out: Option<&DM<R>>) -> IsoType {
    let rank_in = d_in.map(|d| d.rank_field()).unwrap_or(0);
    let rank_out = d_out.map(|d| d.rank_field()).unwrap_or(0);
    assert!(n >= rank_in + rank_out);
    IsoType::free(n - rank_in - rank_out)
}
