//! C20 — `ykh kh|ckh` reports the library's result for every option combination, and an error
//! result (never a table) for unsupported combinations, malformed input and internal failures.
//!
//! The app modules run in-process through the cfg-gated entry point (real clap parsing, real
//! dispatch macros, real panic guard) on the simulated substrate; file reads go to the simulated
//! disk with an enumerated fault plan, internal failures are injected panics at fault points.

use std::collections::BTreeMap;

use refmodel::kh::Cube;
use refmodel::link::Diagram;
use serde_json::{json, Value};
use yui::poly::Poly;
use yui::{EucRing, EucRingOps, FF, Ratio};
use yui_homology::{GridTrait, SummandTrait};
use yui_kh::kh::{KhHomology, KhHomologyBigraded};
use yui_verif_rt as rt;
use yui_verif_rt::fs::{Disk, DiskFault, DiskFaultKind};
use yui_verif_rt::Rng;

use crate::diag::{self, pd_to_json, Pd};
use crate::framework::*;
use crate::khcommon::link_of;

pub struct C20;

const SIM_PATH: &str = "/sim/link.json";
/// malformed link texts (not JSON, wrong shape, labels that are not small non-negative integers, labels not paired)
const GARBAGE: &[&str] = &[
    "[[1,2,3]]", "[[1,2,3,4,5]]", "[1,2,3,4]", "[[1,4,2,4],[3,6,4,1],[5,2,6,3]]", "[[1,2,3,4]]", "[[1,-4,2,5]]",
    "[[1,4,2,5],[3,6,4,1],[5,2,6,3]", "{}", "[[1,1,1,1]]", "[[1,4,2,5],[3,6,4,1],[5,2,6,7]]",
    "[[1.0,4,2,5],[3,6,4,1],[5,2,6,3]]", "[[1.5,4,2,5],[3,6,4,1],[5,2,6,3]]", "[[[1,4,2,5]],[[3,6,4,1]],[[5,2,6,3]]]",
    "[[\"1\",4,2,5],[3,6,4,1],[5,2,6,3]]", "[[1,4,2,5],[3,6,4,1],[5,2,6,3]] x", "null", "", " ",
];
const RESOURCE_NAMES: &[&str] = &["3_1", "4_1", "5_1", "5_2", "6_1", "L2a1", "L4a1"];

fn resource_path(name: &str) -> String {
    format!("/verif/sim/shadow/yui-link/resources/links/{name}.json")
}

// ---------------------------------------------------------------------------------------------
// own classification of a PD text
// ---------------------------------------------------------------------------------------------

#[derive(Debug, Clone, PartialEq)]
enum PdClass {
    /// a consistently oriented diagram: the table of exactly this diagram is expected
    Valid(Pd),
    /// not JSON / wrong shape / labels not paired: must be an error result
    Malformed(String),
    /// labels pair up but the under-strand directions contradict each other (not a diagram of an
    /// oriented link): outcome not determined by the property
    Undetermined,
}

fn classify_pd_text(text: &str) -> PdClass {
    let Ok(v) = serde_json::from_str::<Value>(text) else { return PdClass::Malformed("not JSON".into()) };
    let Some(arr) = v.as_array() else { return PdClass::Malformed("not an array".into()) };
    let mut pd: Pd = vec![];
    for x in arr {
        let Some(a) = x.as_array() else { return PdClass::Malformed("crossing is not an array".into()) };
        if a.len() != 4 { return PdClass::Malformed("crossing does not have 4 labels".into()); }
        let mut c = [0u32; 4];
        for (k, e) in a.iter().enumerate() {
            match e.as_u64() {
                Some(n) if n < 1_000_000 => c[k] = n as u32,
                _ => return PdClass::Malformed("label is not a small non-negative integer".into()),
            }
        }
        pd.push(c);
    }
    let dg = Diagram::from_pd(&pd);
    if dg.validate().is_err() { return PdClass::Malformed("edge labels are not paired".into()); }
    match dg.orientation() {
        Ok(_) => PdClass::Valid(pd),
        Err(_) => PdClass::Undetermined,
    }
}

// ---------------------------------------------------------------------------------------------
// parsing what the command printed
// ---------------------------------------------------------------------------------------------

const SUP: &str = "⁰¹²³⁴⁵⁶⁷⁸⁹";

fn split_sup(s: &str) -> (String, usize) {
    let chars: Vec<char> = s.chars().collect();
    let mut k = chars.len();
    while k > 0 && SUP.contains(chars[k - 1]) { k -= 1; }
    let base: String = chars[..k].iter().collect();
    if k == chars.len() { return (base, 1); }
    let n = chars[k..].iter().fold(0usize, |n, c| n * 10 + SUP.chars().position(|x| x == *c).unwrap());
    (base, n)
}

/// cell text -> (free rank, torsion strings)
fn parse_cell(s: &str) -> Result<(usize, Vec<String>), String> {
    let s = s.trim();
    if s == "." || s == "0" || s.is_empty() { return Ok((0, vec![])); }
    let mut rank = 0;
    let mut tors = vec![];
    for part in s.split(" ⊕ ") {
        let (base, n) = split_sup(part.trim());
        if let Some(inner) = base.strip_prefix('(').and_then(|b| b.strip_suffix(')')) {
            let Some((_, t)) = inner.split_once('/') else { return Err(format!("bad torsion part '{part}'")) };
            for _ in 0..n { tors.push(t.to_string()); }
        } else {
            rank += n;
        }
    }
    tors.sort();
    Ok((rank, tors))
}

fn split_cols(line: &str) -> Vec<String> {
    // prettytable pads every cell with one blank on both sides: cells are separated by >= 2 blanks
    let mut out = vec![];
    let mut cur = String::new();
    let mut blanks = 0;
    for ch in line.trim().chars() {
        if ch == ' ' { blanks += 1; continue; }
        if blanks >= 2 && !cur.is_empty() { out.push(std::mem::take(&mut cur)); }
        else if blanks == 1 { cur.push(' '); }
        blanks = 0;
        cur.push(ch);
    }
    if !cur.is_empty() { out.push(cur); }
    out
}

type Cells = BTreeMap<(i32, i32), (usize, Vec<String>)>;

/// unicode table "j\i ..." or sequence "i ..." -> non-zero cells; sequence rows get j = 0
fn parse_output(out: &str) -> Result<(bool, Cells), String> {
    let lines: Vec<&str> = out.lines().filter(|l| !l.trim().is_empty()).collect();
    let Some(first) = lines.first() else { return Err("empty output".into()) };
    let head = split_cols(first);
    let mut cells = Cells::new();
    if head.first().map(|h| h == "j\\i").unwrap_or(false) {
        let is: Vec<i32> = head[1..].iter().map(|x| x.parse::<i32>().map_err(|_| format!("bad column head '{x}'"))).collect::<Result<_, _>>()?;
        for l in &lines[1..] {
            let cols = split_cols(l);
            let Ok(j) = cols[0].parse::<i32>() else { break }; // table ended (further sections follow)
            if cols.len() != is.len() + 1 { return Err(format!("row '{l}' has {} cells, expected {}", cols.len() - 1, is.len())); }
            for (k, c) in cols[1..].iter().enumerate() {
                let cell = parse_cell(c)?;
                if cell != (0, vec![]) { cells.insert((is[k], j), cell); }
            }
        }
        Ok((true, cells))
    } else if head.first().map(|h| h == "i").unwrap_or(false) {
        let is: Vec<i32> = head[1..].iter().map(|x| x.parse::<i32>().map_err(|_| format!("bad column head '{x}'"))).collect::<Result<_, _>>()?;
        let vals = split_cols(lines.get(1).ok_or("missing value row")?);
        if vals.len() != is.len() { return Err(format!("value row has {} cells, expected {}", vals.len(), is.len())); }
        for (k, c) in vals.iter().enumerate() {
            let cell = parse_cell(c)?;
            if cell != (0, vec![]) { cells.insert((is[k], 0), cell); }
        }
        Ok((false, cells))
    } else {
        Err(format!("output does not start with a table: '{first}'"))
    }
}

// ---------------------------------------------------------------------------------------------
// the library's own answer for the parsed parameters (REF)
// ---------------------------------------------------------------------------------------------

fn lib_cells<R>(pd: &Pd, h: R, t: R, reduced: bool, bigraded: bool) -> Cells
where
    R: EucRing + std::fmt::Display,
    for<'x> &'x R: EucRingOps<R>,
{
    let l = link_of(pd);
    let mut cells = Cells::new();
    let mut put = |k: (i32, i32), rank: usize, tors: &[R]| {
        let mut ts: Vec<String> = tors.iter().map(|t| t.to_string()).collect();
        ts.sort();
        if rank > 0 || !ts.is_empty() { cells.insert(k, (rank, ts)); }
    };
    if bigraded {
        let kh = KhHomologyBigraded::<R>::new(&l, &h, &t, reduced);
        for idx in kh.support() { let s = &kh[(idx.0, idx.1)]; put((idx.0 as i32, idx.1 as i32), s.rank(), s.tors()); }
    } else {
        let kh = KhHomology::<R>::new(&l, &h, &t, reduced);
        for i in kh.support() { let s = &kh[i]; put((i as i32, 0), s.rank(), s.tors()); }
    }
    cells
}

/// c-value classes: (kind, h, t) with kind "num" | "H" | "T" | "HT"; None = not a supported value.
/// Integers are whatever Rust's integer parser accepts ("+1", "01", "-1"), pairs are "a,b".
fn c_params(c: &str) -> Option<(&'static str, i64, i64)> {
    match c {
        "H" => return Some(("H", 0, 0)),
        "0,T" => return Some(("T", 0, 0)),
        "H,T" => return Some(("HT", 0, 0)),
        _ => {}
    }
    let int = |s: &str| -> Option<i64> { if s.is_empty() || s.len() > 4 { None } else { s.parse::<i64>().ok() } };
    if let Some(h) = int(c) {
        return Some(("num", h, 0));
    }
    let (a, b) = c.split_once(',')?;
    Some(("num", int(a)?, int(b)?))
}

fn lib_answer(pd: &Pd, ctype: &str, c: &str, reduced: bool) -> Option<Cells> {
    let (kind, h, t) = c_params(c)?;
    // the parameters live in the coefficient ring: 2 = 0 in F2, 3 = 0 in F3
    let (h, t) = match ctype { "F2" => (h.rem_euclid(2), t.rem_euclid(2)), "F3" => (h.rem_euclid(3), t.rem_euclid(3)), _ => (h, t) };
    let big = (h == 0 && t == 0) || kind == "H" || kind == "T";
    Some(match (ctype, kind) {
        ("Z", "num") => lib_cells::<i64>(pd, h, t, reduced, big),
        ("Q", "num") => lib_cells::<Ratio<i64>>(pd, Ratio::new(h, 1), Ratio::new(t, 1), reduced, big),
        ("F2", "num") => lib_cells::<FF<2>>(pd, FF::new(h as i32), FF::new(t as i32), reduced, big),
        ("F3", "num") => lib_cells::<FF<3>>(pd, FF::new(h as i32), FF::new(t as i32), reduced, big),
        ("Q", "H") => lib_cells(pd, Poly::<'H', Ratio<i64>>::variable(), Poly::from_const(Ratio::new(0, 1)), reduced, big),
        ("F2", "H") => lib_cells(pd, Poly::<'H', FF<2>>::variable(), Poly::from_const(FF::new(0)), reduced, big),
        ("F3", "H") => lib_cells(pd, Poly::<'H', FF<3>>::variable(), Poly::from_const(FF::new(0)), reduced, big),
        ("Q", "T") => lib_cells(pd, Poly::<'T', Ratio<i64>>::from_const(Ratio::new(0, 1)), Poly::variable(), reduced, big),
        ("F2", "T") => lib_cells(pd, Poly::<'T', FF<2>>::from_const(FF::new(0)), Poly::variable(), reduced, big),
        ("F3", "T") => lib_cells(pd, Poly::<'T', FF<3>>::from_const(FF::new(0)), Poly::variable(), reduced, big),
        _ => return None,
    })
}

/// is (cmd, -t, -c, -r) a supported combination according to the documented option space?
fn supported(cmd: &str, ctype: &str, c: &str, reduced: bool) -> bool {
    let Some((kind, _h, t)) = c_params(c) else { return false };
    if !["Z", "Q", "F2", "F3"].contains(&ctype) { return false; }
    // "t must be zero for reduced" is judged in the coefficient ring: "-t F2 -c 1,2 -r" has t = 0
    let t_in_ring = match ctype { "F2" => t.rem_euclid(2), "F3" => t.rem_euclid(3), _ => t };
    if reduced && (t_in_ring != 0 || kind == "T" || kind == "HT") { return false; }
    match (cmd, kind) {
        (_, "num") => true,
        ("kh", "H") | ("kh", "T") => ctype != "Z", // Z[H], Z[T] are not Euclidean: homology is not offered
        ("kh", "HT") => false,
        ("ckh", _) => true,
        _ => false,
    }
}

// ---------------------------------------------------------------------------------------------

/// the second enumerated block: for a few fixed command lines, an internal panic at EVERY ordinal of
/// both kinds of fault point (n-th start of a parallel task, n-th lock acquisition: the lock is then
/// poisoned for everybody else) up to a bound beyond the number of such points of these commands
const PANIC_ENUM_CMDS: &[(&str, &str, &str, &str, bool)] = &[("kh", "3_1", "Z", "0", false), ("ckh", "L2a1", "F2", "1", false), ("kh", "4_1", "Q", "H", true), ("kh", "6_1", "F3", "0,1", false), ("kh", "L4a1", "Z", "1", true)];
const PANIC_ENUM_ORDINALS: u64 = 120;

fn disk_enum_total() -> u64 {
    ENUM_FILES.iter().map(|f| fault_space(std::fs::read(resource_path(f)).map(|b| b.len() as u64).unwrap_or(0))).sum()
}

fn enumerated_panic(idx: u64) -> Option<(usize, &'static str, u64)> {
    let k = idx.checked_sub(disk_enum_total())?;
    let per_cmd = 2 * PANIC_ENUM_ORDINALS;
    let ci = (k / per_cmd) as usize;
    if ci >= PANIC_ENUM_CMDS.len() { return None; }
    let r = k % per_cmd;
    Some((ci, if r < PANIC_ENUM_ORDINALS { "par.task_start" } else { "lock.held" }, r % PANIC_ENUM_ORDINALS))
}

fn gen_case_inner(rng: &mut Rng, idx: u64) -> Value {
    if let Some((ci, site, nth)) = enumerated_panic(idx) {
        let (cmd, name, ctype, c, reduced) = PANIC_ENUM_CMDS[ci];
        let mut argv: Vec<String> = ["ykh", cmd, name, "-t", ctype, "-c", c].iter().map(|s| s.to_string()).collect();
        if reduced { argv.push("-r".into()); }
        return json!({ "argv": argv, "cmd": cmd, "ctype": ctype, "c": c, "mirror": false, "reduced": reduced, "link_kind": "name",
            "files": {}, "disk_faults": [], "panic_faults": [[site, nth]], "panic_enum": true });
    }
    // the first runs sweep the disk-fault space of one stored file completely (fault_enumeration)
    let enum_plan = enumerated_fault(idx);
    let cmd = if rng.chance(2, 3) { "kh" } else { "ckh" };
    let ctype = *rng.pick(&["Z", "Z", "Q", "F2", "F3", "", "Gauss"]);
    let c = if rng.chance(1, 8) {
        // rarer spellings: integers with sign / leading zero (supported), malformed pairs and
        // unsupported symbols (must be rejected)
        *rng.pick(&["+1", "01", "-1", "1,-1", "2,-1", "-2,-1", "1,2", "-1,1", ",1", "1,1,1", "1 ,1", "h", "2H", "1x", "1,", "x"])
    } else {
        *rng.pick(&["0", "0", "0", "1", "2", "3", "1,1", "0,1", "H", "H", "0,T", "H,T", ""])
    };
    let (mirror, reduced) = (rng.chance(1, 4), rng.chance(1, 3));
    let mut files = json!({});
    let mut disk_faults = json!([]);
    // link argument
    let kind = if enum_plan.is_some() { 9 } else { rng.below(12) };
    // an enumerated fault must actually be applied: use a command line that reaches the file read
    let (cmd, ctype, c, mirror, reduced) = if enum_plan.is_some() { ("kh", *rng.pick(&["Z", "F2", "Q"]), "0", false, false) } else { (cmd, ctype, c, mirror, reduced) };
    let (link_arg, link_kind): (String, &str) = match kind {
        0..=2 => {
            let name = *rng.pick(RESOURCE_NAMES);
            // sometimes a FILE with the same name (holding another diagram) lies around: a table name
            // still means the table entry
            if rng.chance(1, 5) {
                let (_, other) = diag::draw(rng, 5);
                files[name] = json!(pd_to_json(&other).to_string());
                files[format!("./{name}")] = json!(pd_to_json(&other).to_string());
            }
            (name.to_string(), "name")
        }
        11 if rng.chance(1, 2) => {
            // a name of table form that is not in the table stays unknown even if a file of that name exists
            let name = *rng.pick(&["9_99", "3_9999", "10_999"]);
            let (_, other) = diag::draw(rng, 5);
            files[name] = json!(pd_to_json(&other).to_string());
            (name.to_string(), "unknown")
        }
        3..=5 => { let (_, pd) = diag::draw(rng, 6); (pd_to_json(&pd).to_string(), "pd") }
        6 => {
            // a path stays a path whatever its last component looks like: "./L2a1" is the user's file,
            // not the table entry L2a1
            let path = if rng.chance(1, 3) { *rng.pick(&["./L2a1", "/sim/L4a1", "sim/K3a1", "./3_1.json", "/sim/3_1", "./x3_1", "/sim/5_2.json", "L2a1.json", "my-L2a1"]) } else { SIM_PATH };
            let (_, pd) = diag::draw(rng, 6);
            files[path] = json!(pd_to_json(&pd).to_string());
            (path.to_string(), "path")
        }
        7 => (rng.pick(&["99_1", "3_9999", "K3a1", "foo", "/sim/missing.json", "../etc/passwd", "/tmp", "/"]).to_string(), "unknown"),
        10 => {
            // a FILE with malformed content: files are parsed by a different code path than inline codes
            let g = *rng.pick(GARBAGE);
            files[SIM_PATH] = json!(g);
            (SIM_PATH.to_string(), "path")
        }
        8 => (rng.pick(GARBAGE).to_string(), "garbage"),
        9 => {
            // stored file + disk fault
            let name = *rng.pick(RESOURCE_NAMES);
            let content = std::fs::read_to_string(resource_path(name)).expect("resource table present");
            let (plan, arg) = match enum_plan {
                Some((fname, k)) => { let content = std::fs::read_to_string(resource_path(fname)).unwrap(); (fault_to_json(&nth_fault(&content, k)), fname.to_string()) }
                None => (fault_to_json(&random_fault(rng, &content)), name.to_string()),
            };
            disk_faults = json!([plan]);
            (arg, "name+diskfault")
        }
        _ => { let (_, pd) = diag::draw(rng, 7); (pd_to_json(&pd).to_string(), "pd") }
    };
    let mut argv = vec!["ykh".to_string(), cmd.to_string(), link_arg];
    if !ctype.is_empty() { argv.push("-t".into()); argv.push(ctype.to_string()); }
    if !c.is_empty() {
        // a value that starts with '-' has to be attached (`-c=-1`), as with any command line
        if c.starts_with('-') { argv.push(format!("-c={c}")); } else { argv.push("-c".into()); argv.push(c.to_string()); }
    }
    if mirror { argv.push("-m".into()); }
    if reduced { argv.push("-r".into()); }
    // ckh's extra sections (generators, differentials) follow the table; the table and the exit
    // status must not depend on them
    if cmd == "ckh" && enum_plan.is_none() && rng.chance(1, 3) {
        match rng.below(3) { 0 => argv.push("-d".into()), 1 => argv.push("-g".into()), _ => { argv.push("-g".into()); argv.push("-d".into()); } }
    }
    // internal failure: an injected panic at the n-th fault point of a kind
    let panic_faults = if enum_plan.is_none() && rng.chance(1, 6) {
        let span = *rng.pick(&[3u64, 30, 300]);
        let site = *rng.pick(&["par.task_start", "lock.held"]);
        json!([[site, rng.below(span)]])
    } else { json!([]) };
    json!({ "argv": argv, "cmd": cmd, "ctype": if ctype.is_empty() { "Z" } else { ctype }, "c": if c.is_empty() { "0" } else { c },
        "mirror": mirror, "reduced": reduced, "link_kind": link_kind, "files": files, "disk_faults": disk_faults, "panic_faults": panic_faults })
}

const ENUM_FILES: &[&str] = &["3_1", "L2a1"];

fn enumerated_fault(idx: u64) -> Option<(&'static str, u64)> {
    let mut k = idx;
    for f in ENUM_FILES {
        let len = std::fs::read(resource_path(f)).map(|b| b.len() as u64).unwrap_or(0);
        let n = fault_space(len);
        if k < n { return Some((f, k)); }
        k -= n;
    }
    None
}

const APPENDS: &[&str] = &["]", " x", "\n[[1,2,2,1]]", ",[5,2,6,3]]", "\u{0}", "\n"];

fn fault_space(len: u64) -> u64 { 5 + len + len * 8 + len + APPENDS.len() as u64 + RESOURCE_NAMES.len() as u64 }

fn nth_fault(content: &str, k: u64) -> DiskFaultKind {
    let len = content.len() as u64;
    match k {
        0 => DiskFaultKind::NotFound,
        1 => DiskFaultKind::PermissionDenied,
        2 => DiskFaultKind::Io,
        3 => DiskFaultKind::InterruptedThenOk,
        4 => DiskFaultKind::Empty,
        k if k < 5 + len => DiskFaultKind::ShortRead((k - 5) as usize),
        k if k < 5 + len + len * 8 => { let q = k - 5 - len; DiskFaultKind::BitFlip { byte: (q / 8) as usize, bit: (q % 8) as u8 } }
        k if k < 5 + len + len * 8 + len => DiskFaultKind::InvalidUtf8((k - 5 - len - len * 8) as usize),
        k if k < 5 + len + len * 8 + len + APPENDS.len() as u64 => DiskFaultKind::Append(APPENDS[(k - 5 - len - len * 8 - len) as usize].as_bytes().to_vec()),
        k => {
            // torn rewrite with the content of another stored diagram
            let other = RESOURCE_NAMES[(k - 5 - len - len * 8 - len - APPENDS.len() as u64) as usize % RESOURCE_NAMES.len()];
            DiskFaultKind::TornOverwrite(std::fs::read(resource_path(other)).expect("resource table present"))
        }
    }
}

fn random_fault(rng: &mut Rng, content: &str) -> DiskFaultKind {
    nth_fault(content, rng.below(fault_space(content.len() as u64)))
}

fn fault_to_json(k: &DiskFaultKind) -> Value {
    match k {
        DiskFaultKind::NotFound => json!(["NotFound"]),
        DiskFaultKind::PermissionDenied => json!(["PermissionDenied"]),
        DiskFaultKind::Io => json!(["Io"]),
        DiskFaultKind::InterruptedThenOk => json!(["InterruptedThenOk"]),
        DiskFaultKind::Empty => json!(["Empty"]),
        DiskFaultKind::ShortRead(n) => json!(["ShortRead", n]),
        DiskFaultKind::BitFlip { byte, bit } => json!(["BitFlip", byte, bit]),
        DiskFaultKind::InvalidUtf8(n) => json!(["InvalidUtf8", n]),
        DiskFaultKind::Append(b) => json!(["Append", String::from_utf8_lossy(b)]),
        DiskFaultKind::TornOverwrite(b) => json!(["TornOverwrite", String::from_utf8_lossy(b)]),
    }
}

fn fault_from_json(v: &Value) -> DiskFaultKind {
    let n = |i: usize| v[i].as_u64().unwrap() as usize;
    match v[0].as_str().unwrap() {
        "NotFound" => DiskFaultKind::NotFound,
        "PermissionDenied" => DiskFaultKind::PermissionDenied,
        "Io" => DiskFaultKind::Io,
        "InterruptedThenOk" => DiskFaultKind::InterruptedThenOk,
        "Empty" => DiskFaultKind::Empty,
        "ShortRead" => DiskFaultKind::ShortRead(n(1)),
        "BitFlip" => DiskFaultKind::BitFlip { byte: n(1), bit: n(2) as u8 },
        "Append" => DiskFaultKind::Append(v[1].as_str().unwrap().as_bytes().to_vec()),
        "TornOverwrite" => DiskFaultKind::TornOverwrite(v[1].as_str().unwrap().as_bytes().to_vec()),
        _ => DiskFaultKind::InvalidUtf8(n(1)),
    }
}

/// a finding key for inputs the library is known to mishandle (see known_findings.json)
fn pd_text_of(case: &Value, stats: &[rt::RunStats]) -> Option<String> {
    match case["link_kind"].as_str().unwrap() {
        "pd" | "garbage" => Some(case["argv"][2].as_str().unwrap().to_string()),
        // a table name means the table entry: what counts is what the read of THAT file delivered
        "name" | "name+diskfault" => {
            let want = resource_path(case["argv"][2].as_str().unwrap());
            stats.first().and_then(|s| s.disk_log.iter().rev().find(|(p, _)| *p == want)).and_then(|(_, r)| r.as_ref().ok()).and_then(|b| String::from_utf8(b.clone()).ok())
        }
        // a path means that file: what counts is what the read of THAT path delivered
        "path" => {
            let want = case["argv"][2].as_str().unwrap();
            stats.first().and_then(|s| s.disk_log.iter().rev().find(|(p, _)| p == want)).and_then(|(_, r)| r.as_ref().ok()).and_then(|b| String::from_utf8(b.clone()).ok())
        }
        _ => stats.first().and_then(|s| s.disk_log.last()).and_then(|(_, r)| r.as_ref().ok()).and_then(|b| String::from_utf8(b.clone()).ok()),
    }
}

impl Check for C20 {
    fn id(&self) -> &'static str { "C20" }
    fn level(&self) -> &'static str { "fault_enumeration" }
    fn rule(&self) -> String {
        "one run = one command line {kh,ckh} x -t {Z,Q,F2,F3,(default),Gauss} x -c {0,1,2,3,'1,1','0,1',H,'0,T','H,T',garbage} x -m x -r x link {table name (file read on the simulated disk), PD JSON, path on the simulated disk, unknown name, malformed / unpaired PD text}, executed in-process through App::verif_run on the simulated substrate (workers, schedule, hash seeds drawn). Faults: the first runs ENUMERATE the disk-fault space of two stored files completely (ENOENT, EACCES, EIO, EINTR-then-ok, empty, short read at every byte offset, flip of every bit, invalid UTF-8 at every offset, six kinds of trailing bytes, torn rewrite with every other stored diagram); the next 1200 runs ENUMERATE an injected internal panic at every ordinal 0..119 (these commands reach at most 70 such points) of both fault-point kinds (n-th task start, n-th lock acquisition = lock held => poisoning) for five fixed command lines; later runs sample disk faults for other files and panic ordinals for other command lines. Oracle: supported combination on a valid diagram (judged by an own PD reader on the bytes actually delivered) => Ok and the parsed table has exactly the non-zero cells of the library's own answer computed in a fault-free twin execution, with equal rank and torsion; otherwise => Err. distinct = distinct event-log digests; non-trivial = a fault fired or the command reached the computation".into()
    }
    fn assumptions(&self) -> Vec<String> {
        vec![
            "main()'s mapping Ok -> print + exit 0 / Err -> message + exit 1 (three lines) is trusted; the real process boundary (stdout errors, clap usage exit codes, allocation failure) is outside the simulator".into(),
            "PD texts whose labels pair up but whose under-strand directions are inconsistent are not judged (neither outcome is demanded)".into(),
            "ckh is judged by the per-q Euler characteristic of the printed generator table (graded parameters) or its total Euler characteristic (numeric non-zero parameters), because the simplified complex itself is path dependent".into(),
            "injected panics: every ordinal 0..119 of both fault-point kinds is enumerated for five fixed command lines (each under one drawn schedule); for all other command lines the ordinal is sampled".into(),
        ]
    }
    fn required_probes(&self) -> Vec<&'static str> {
        vec!["tables_compared", "errors_expected_and_reported", "disk:BitFlip", "disk:ShortRead", "disk:Append", "disk:TornOverwrite", "panic", "ckh_tables_checked"]
    }
    fn max_steps(&self) -> usize { 20_000_000 }
    fn runs(&self, tier: &str) -> u64 { if tier == "quick" { 30_000 } else { 2_000_000 } }
    fn gen_case(&self, rng: &mut Rng, idx: u64, _tier: &str) -> Value { gen_case_inner(rng, idx) }
    fn tune_cfg(&self, _rng: &mut Rng, case: &Value, cfg: &mut SimCfg) {
        cfg.run.panic_faults = case["panic_faults"].as_array().unwrap().iter().map(|f| rt::PanicFault { site: f[0].as_str().unwrap().to_string(), nth: f[1].as_u64().unwrap() }).collect();
    }
    fn run_case(&self, case: &Value, ex: &mut Executor) -> RunReport {
        let mut rep = RunReport::default();
        let argv: Vec<String> = case["argv"].as_array().unwrap().iter().map(|s| s.as_str().unwrap().to_string()).collect();
        let mut disk = Disk::passthrough();
        for (p, c) in case["files"].as_object().unwrap() { disk.files.insert(p.clone(), c.as_str().unwrap().as_bytes().to_vec()); }
        disk.faults = case["disk_faults"].as_array().unwrap().iter().map(|f| DiskFault { nth_read: 0, kind: fault_from_json(f) }).collect();
        let res = ex.exec(None, disk, move || ykh_app::App::verif_run(argv).map_err(|e| e.to_string()));
        let st = ex.stats.last().cloned().unwrap_or_default();
        for f in &st.faults_fired {
            let k = f.split(['@', '(', '{', ' ']).next().unwrap_or(f).to_string();
            *rep.counters.entry(k).or_insert(0) += 1;
        }
        let injected = st.faults_fired.iter().any(|f| f.starts_with("panic@"));
        if case.get("panic_enum").is_some() {
            rep.counters.insert("panic_ordinals_enumerated".into(), 1);
            rep.counters.insert(if injected { "panic_ordinals_enumerated_fired" } else { "panic_ordinals_enumerated_beyond_last_point" }.into(), 1);
        }
        let (cmd, ctype, c) = (case["cmd"].as_str().unwrap(), case["ctype"].as_str().unwrap(), case["c"].as_str().unwrap());
        let (mirror, reduced) = (case["mirror"].as_bool().unwrap(), case["reduced"].as_bool().unwrap());
        let got = match res {
            Err(a) => { rep.violation = Some(abort_to_violation(&a)); rep.outcome_class = "abort".into(); return rep; }
            Ok(r) => r,
        };
        rep.outcome_class = if got.is_ok() { "Ok" } else { "Err" }.into();
        rep.nontrivial = !st.faults_fired.is_empty() || st.par_calls > 0;
        rep.outcome_digest = got.as_ref().map(|s| s.len() as u64).unwrap_or(7);
        // what diagram did the command actually receive?
        let pd_class = match case["link_kind"].as_str().unwrap() {
            "unknown" => PdClass::Malformed("no such link".into()),
            _ => match pd_text_of(case, &ex.stats) {
                Some(t) => classify_pd_text(&t),
                None => PdClass::Malformed("the link file was not read or could not be read".into()),
            },
        };
        let must_fail = !supported(cmd, ctype, c, reduced) || injected || matches!(pd_class, PdClass::Malformed(_))
            || (reduced && matches!(&pd_class, PdClass::Valid(pd) if pd.is_empty()));
        if must_fail {
            match &got {
                Err(_) => { rep.counters.insert("errors_expected_and_reported".into(), 1); }
                Ok(out) => {
                    let why = if injected { "an internal failure was injected".to_string() } else if let PdClass::Malformed(m) = &pd_class { format!("malformed link input ({m})") } else { "unsupported option combination".to_string() };
                    rep.violation = Some(Violation::new("table-instead-of-error", format!("{why}, but the command returned Ok: {}", out.chars().take(200).collect::<String>())));
                }
            }
            return rep;
        }
        let PdClass::Valid(pd) = pd_class else { rep.counters.insert("undetermined_input".into(), 1); return rep; };
        let out = match got {
            Ok(o) => o,
            Err(e) => {
                // an i64 overflow panic is outside the property (machine integers are not Z)
                if e.contains("overflow") { rep.counters.insert("i64_overflow_skipped".into(), 1); return rep; }
                rep.violation = Some(Violation::new("error-instead-of-table", format!("supported combination on a valid diagram, but the command failed: {e}")));
                return rep;
            }
        };
        let pd = if mirror { diag::mirror(&pd) } else { pd };
        let parsed = match parse_output(&out) {
            Ok(p) => p,
            Err(e) => { rep.violation = Some(Violation::new("unparsable-output", format!("{e}: {}", out.chars().take(200).collect::<String>()))); return rep; }
        };
        if cmd == "kh" {
            // the library's own answer, computed without faults in a twin execution
            let mut clean = ex.cfg.run.clone();
            clean.panic_faults.clear();
            let (pd2, ct, cc) = (pd.clone(), ctype.to_string(), c.to_string());
            let want = ex.exec_cfg(clean, Disk::passthrough(), move || lib_answer(&pd2, &ct, &cc, reduced));
            match want {
                Err(a) => { rep.violation = Some(Violation::new("harness:ref-failed", format!("{:?}", abort_to_violation(&a)))); }
                Ok(None) => { rep.counters.insert("no_ref_for_combination".into(), 1); }
                Ok(Some(want)) => {
                    rep.counters.insert("tables_compared".into(), 1);
                    if parsed.1 != want {
                        rep.violation = Some(Violation::new("table-differs-from-library", format!("printed cells {:?} ; library {:?}", parsed.1, want)));
                    }
                }
            }
        } else {
            // ckh: Euler characteristic of the printed generator table
            let (kind, h, t) = c_params(c).unwrap();
            let (h, t) = match ctype { "F2" => (h.rem_euclid(2), t.rem_euclid(2)), "F3" => (h.rem_euclid(3), t.rem_euclid(3)), _ => (h, t) };
            let graded = kind != "num" || (h == 0 && t == 0);
            let dg = Diagram::from_pd(&pd);
            let base = if reduced { pd.first().map(|x| *x.iter().min().unwrap()) } else { None };
            let cube = Cube::new(&dg, 0, 0, reduced, base).expect("valid diagram");
            let mut want: BTreeMap<i32, i64> = BTreeMap::new();
            for r in 0..=cube.n { for g in &cube.gens[r] {
                let q = if graded { cube.q_deg(r, g) } else { 0 };
                *want.entry(q).or_insert(0) += if cube.h_deg(r) % 2 == 0 { 1 } else { -1 };
            } }
            want.retain(|_, v| *v != 0);
            let mut have: BTreeMap<i32, i64> = BTreeMap::new();
            for ((i, j), (rank, tors)) in &parsed.1 {
                if !tors.is_empty() { rep.violation = Some(Violation::new("ckh-table-has-torsion", "generator table lists a torsion group".to_string())); return rep; }
                *have.entry(if graded { *j } else { 0 }).or_insert(0) += if i % 2 == 0 { *rank as i64 } else { -(*rank as i64) };
            }
            have.retain(|_, v| *v != 0);
            rep.counters.insert("ckh_tables_checked".into(), 1);
            if !cube.orientation_ambiguous && have != want {
                rep.violation = Some(Violation::new("ckh-euler-characteristic", format!("graded Euler characteristic of the printed generators {have:?} ; of the cube of resolutions {want:?}")));
            }
        }
        rep
    }
    fn finding_key(&self, case: &Value, v: &Violation) -> Option<String> {
        // keyed by the violation class and the exact link text
        Some(format!("{}|{}", v.class, case["argv"][2].as_str().unwrap_or("")))
    }
}
