//! Check framework: seeded batches of simulated runs, violation reports with replay files,
//! minimisation, determinism proof, evidence.

use std::collections::{BTreeMap, BTreeSet};
use std::sync::atomic::{AtomicBool, AtomicU64, Ordering};
use std::sync::Mutex;
use std::time::Instant;

use serde_json::{json, Value};
use yui_verif_rt as rt;
use yui_verif_rt::sched::Strategy;
use yui_verif_rt::{ParCfg, Pickup, Rng, RunCfg, RunStats};

use crate::core::{Abort, ExecOutcome, ExecPlan, Sched};

#[derive(Clone, Debug, PartialEq)]
pub struct Violation {
    /// short stable class, e.g. "panic", "deadlock", "not-triangular"
    pub class: String,
    pub message: String,
}

impl Violation {
    pub fn new(class: &str, message: impl Into<String>) -> Self {
        Violation { class: class.into(), message: message.into() }
    }
}

/// Everything that is *not* the workload: how the simulated substrate behaves in this run.
#[derive(Clone, Debug)]
pub struct SimCfg {
    pub run: RunCfg,
    pub strategy: Strategy,
    pub sched_seed: u64,
    pub max_steps: usize,
}

pub fn simcfg_to_json(c: &SimCfg) -> Value {
    json!({
        "workers": c.run.par.workers,
        "nested_workers": c.run.par.nested_workers,
        "pickup": format!("{:?}", c.run.par.pickup),
        "one_item_per_worker": c.run.par.one_item_per_worker,
        "all_on_one": c.run.par.all_on_one,
        "permute_unordered_collect": c.run.par.permute_unordered_collect,
        "steal_while_waiting": c.run.par.steal_while_waiting,
        "hash_key": c.run.hash_key.to_string(),
        "buggify_sites": c.run.buggify_sites.iter().map(|(s, p)| json!([s, p])).collect::<Vec<_>>(),
        "buggify_cap": c.run.buggify_cap,
        "buggify_key": c.run.buggify_key.to_string(),
        "panic_faults": c.run.panic_faults.iter().map(|f| json!([f.site, f.nth])).collect::<Vec<_>>(),
        "strategy": c.strategy.describe(),
        "sched_seed": c.sched_seed.to_string(),
        "max_steps": c.max_steps,
    })
}

fn ju64(v: &Value) -> u64 {
    match v {
        Value::String(s) => s.parse().unwrap(),
        Value::Number(n) => n.as_u64().unwrap(),
        _ => panic!("bad u64 in replay file: {v}"),
    }
}

pub fn simcfg_from_json(v: &Value) -> SimCfg {
    let pickup = match v["pickup"].as_str().unwrap() {
        "Front" => Pickup::Front,
        "Back" => Pickup::Back,
        _ => Pickup::Random,
    };
    SimCfg {
        run: RunCfg {
            par: ParCfg {
                workers: v["workers"].as_u64().unwrap() as usize,
                nested_workers: v["nested_workers"].as_u64().unwrap() as usize,
                pickup,
                one_item_per_worker: v["one_item_per_worker"].as_bool().unwrap(),
                all_on_one: v["all_on_one"].as_bool().unwrap(),
                permute_unordered_collect: v["permute_unordered_collect"].as_bool().unwrap(),
                steal_while_waiting: v["steal_while_waiting"].as_bool().unwrap_or(false),
            },
            hash_key: ju64(&v["hash_key"]),
            buggify_sites: v["buggify_sites"].as_array().unwrap().iter()
                .map(|e| (e[0].as_str().unwrap().to_string(), e[1].as_u64().unwrap() as u32)).collect(),
            buggify_cap: v["buggify_cap"].as_u64().unwrap() as u32,
            buggify_key: ju64(&v["buggify_key"]),
            panic_faults: v["panic_faults"].as_array().unwrap().iter()
                .map(|e| rt::PanicFault { site: e[0].as_str().unwrap().to_string(), nth: e[1].as_u64().unwrap() }).collect(),
            keep_events: true,
        },
        strategy: Strategy::parse(v["strategy"].as_str().unwrap()).expect("strategy"),
        sched_seed: ju64(&v["sched_seed"]),
        max_steps: v["max_steps"].as_u64().unwrap() as usize,
    }
}

/// Swarm: draw the substrate configuration for one run.
pub fn draw_simcfg(rng: &mut Rng, buggify_menu: &[&str], max_steps: usize) -> SimCfg {
    let workers = match rng.below(10) {
        0 => 1,
        1..=5 => 2 + rng.below(3) as usize,  // 2..4
        6..=8 => 5 + rng.below(4) as usize,  // 5..8
        _ => 9 + rng.below(8) as usize,      // 9..16
    };
    let pickup = *rng.pick(&[Pickup::Front, Pickup::Front, Pickup::Back, Pickup::Random, Pickup::Random]);
    let mut sites = vec![];
    for s in buggify_menu {
        if rng.chance(1, 4) {
            sites.push((s.to_string(), *rng.pick(&[8u32, 32, 96])));
        }
    }
    SimCfg {
        run: RunCfg {
            par: ParCfg {
                workers,
                nested_workers: 1 + rng.below(3) as usize,
                pickup,
                one_item_per_worker: rng.chance(1, 12),
                all_on_one: rng.chance(1, 16),
                permute_unordered_collect: rng.chance(1, 2),
                steal_while_waiting: rng.chance(1, 2),
            },
            hash_key: rng.next_u64(),
            buggify_sites: sites,
            buggify_cap: 1 + rng.below(6) as u32,
            buggify_key: rng.next_u64(),
            panic_faults: vec![],
            keep_events: true,
        },
        strategy: Strategy::draw(rng),
        sched_seed: rng.next_u64(),
        max_steps,
    }
}

/// Hands out the executions of one run: in generate mode each execution gets its own schedule
/// seed; in replay mode the recorded traces are consumed in order.
pub struct Executor<'a> {
    pub cfg: &'a SimCfg,
    replay: Option<(Vec<Vec<u32>>, bool)>,
    n: usize,
    pub traces: Vec<Vec<u32>>,
    pub stats: Vec<RunStats>,
    pub choice_points: u64,
    pub harness_error: Option<String>,
}

impl<'a> Executor<'a> {
    pub fn new(cfg: &'a SimCfg, replay: Option<(Vec<Vec<u32>>, bool)>) -> Self {
        Executor { cfg, replay, n: 0, traces: vec![], stats: vec![], choice_points: 0, harness_error: None }
    }

    /// Run `body` in a simulation with the run's configuration (optionally overriding the
    /// parallel configuration, e.g. for the "one worker" twin of a run).
    pub fn exec<T, F>(&mut self, par_override: Option<ParCfg>, disk: rt::fs::Disk, body: F) -> Result<T, Abort>
    where
        T: Send + 'static,
        F: FnOnce() -> T + Send + 'static,
    {
        let mut run = self.cfg.run.clone();
        if let Some(p) = par_override {
            run.par = p;
        }
        self.exec_cfg(run, disk, body)
    }

    /// like `exec`, with an explicit run configuration (e.g. the fault-free twin of a faulty run)
    pub fn exec_cfg<T, F>(&mut self, run: RunCfg, disk: rt::fs::Disk, body: F) -> Result<T, Abort>
    where
        T: Send + 'static,
        F: FnOnce() -> T + Send + 'static,
    {
        let sched = match &self.replay {
            Some((traces, strict)) => Sched::Replay { decisions: traces.get(self.n).cloned().unwrap_or_default(), strict: *strict },
            None => Sched::Generate { seed: rt::mix(self.cfg.sched_seed, self.n as u64), strategy: self.cfg.strategy.clone() },
        };
        self.n += 1;
        let plan = ExecPlan { cfg: run, sched, disk, max_steps: self.cfg.max_steps, stack_size: 2 << 20 };
        let ExecOutcome { result, stats, trace, choice_points } = crate::core::execute(&plan, body);
        self.traces.push(trace);
        self.choice_points += choice_points;
        self.stats.push(stats);
        match &result {
            Err(Abort::ReplayDiverged(m)) => self.harness_error = Some(format!("replay diverged: {m}")),
            Err(Abort::Engine(m)) => self.harness_error = Some(format!("engine failure: {m}")),
            _ => {}
        }
        result
    }

    pub fn digest(&self) -> u64 {
        let mut d = 0u64;
        for s in &self.stats {
            d = rt::mix(d, s.digest);
        }
        for t in &self.traces {
            d = rt::mix(d, t.len() as u64);
        }
        d
    }
}

pub fn abort_to_violation(a: &Abort) -> Violation {
    match a {
        Abort::Panic { msg, loc, injected } => Violation::new(
            if *injected { "injected-panic-escaped" } else { "panic" },
            format!("{msg} @ {loc}"),
        ),
        Abort::Deadlock(m) => Violation::new("deadlock", m.clone()),
        Abort::StepBudget(m) => Violation::new("step-budget", m.clone()),
        Abort::ReplayDiverged(m) => Violation::new("harness:replay-diverged", m.clone()),
        Abort::Engine(m) => Violation::new("harness:engine", m.clone()),
    }
}

/// Machine integers are not Z: an arithmetic-overflow panic of i64 / Ratio<i64> arithmetic (the
/// harness builds with overflow checks on, as the repository's release profile does) is a
/// limitation of the coefficient type, not a violation of a property about exact arithmetic.
pub fn is_machine_overflow(v: &Violation) -> bool {
    v.class == "panic" && (v.message.contains("with overflow") || v.message.contains("attempt to negate with overflow"))
}

/// What a check reports for one run.
#[derive(Default, Debug, Clone)]
pub struct RunReport {
    pub violation: Option<Violation>,
    /// did this run exercise the racy / faulty path at all (for `distinct_nontrivial`)
    pub nontrivial: bool,
    /// digest of the observable outcome (result value), folded into the determinism digest
    pub outcome_digest: u64,
    /// free-form counters merged into evidence (probe hits, fault kinds fired, …)
    pub counters: BTreeMap<String, u64>,
    /// short description of the outcome class, for "distinct outcomes" statistics
    pub outcome_class: String,
    /// canonical rendering of the observable result, for cross-run (history) checks
    pub detail: String,
}

pub trait Check: Sync {
    fn id(&self) -> &'static str;
    fn level(&self) -> &'static str {
        "exploration"
    }
    fn rule(&self) -> String;
    fn assumptions(&self) -> Vec<String>;
    /// probes that must be non-zero over a batch (else the workload is broken: exit 2)
    fn required_probes(&self) -> Vec<&'static str> {
        vec![]
    }
    fn buggify_menu(&self) -> Vec<&'static str> {
        vec![]
    }
    fn max_steps(&self) -> usize {
        200_000
    }
    fn runs(&self, tier: &str) -> u64;
    /// draw the workload of run `idx` as explicit JSON
    fn gen_case(&self, rng: &mut Rng, idx: u64, tier: &str) -> Value;
    /// adjust the drawn substrate configuration to the case (e.g. add faults)
    fn tune_cfg(&self, _rng: &mut Rng, _case: &Value, _cfg: &mut SimCfg) {}
    /// execute + oracle
    fn run_case(&self, case: &Value, ex: &mut Executor) -> RunReport;
    /// strictly simpler workloads to try while minimising
    fn shrink_case(&self, _case: &Value) -> Vec<Value> {
        vec![]
    }
    /// checks over the whole batch history (cross-run invariants); called once at the end with
    /// (case, report) of all runs in index order
    fn cross_check(&self, _runs: &[(u64, Value, RunReport)]) -> Vec<(u64, Violation)> {
        vec![]
    }
    /// whether `cross_check` is implemented (then every run's case + outcome is kept)
    fn has_cross_check(&self) -> bool {
        false
    }
    /// known findings: (matcher over case/violation) -> description; see known_findings.json
    fn finding_key(&self, _case: &Value, _v: &Violation) -> Option<String> {
        None
    }
}

pub struct OneRun {
    pub idx: u64,
    pub case: Value,
    pub cfg: SimCfg,
    pub report: RunReport,
    pub traces: Vec<Vec<u32>>,
    pub digest: u64,
    pub steps: u64,
    pub choice_points: u64,
    pub stats: Vec<RunStats>,
    pub harness_error: Option<String>,
}

impl OneRun {
    /// digest of everything the run did: event log, outcome, every scheduling decision
    pub fn full_digest(&self) -> u64 {
        let mut d = self.digest;
        for t in &self.traces {
            for &x in t {
                d = rt::mix(d, x as u64);
            }
        }
        d
    }
}

/// Re-executes runs [0, k) in a fresh child process with a different number of driver threads
/// and compares the full digests with the ones observed in this process.
pub fn determinism_sample(check: &dyn Check, o: &BatchOpts, ours: &BTreeMap<u64, u64>, k: u64) -> Result<(u64, u64), String> {
    let k = k.min(ours.keys().max().map(|m| m + 1).unwrap_or(0));
    if k == 0 {
        return Ok((0, 0));
    }
    let exe = std::env::current_exe().map_err(|e| e.to_string())?;
    let out = std::process::Command::new(exe)
        .args(["digests", check.id(), "--seed", &o.seed.to_string(), "--tier", &o.tier, "--from", "0", "--to", &k.to_string(), "--threads", "3"])
        .output().map_err(|e| e.to_string())?;
    if !out.status.success() {
        return Err(format!("child process failed: {}", String::from_utf8_lossy(&out.stderr).chars().take(300).collect::<String>()));
    }
    let mut theirs: BTreeMap<u64, u64> = BTreeMap::new();
    for l in String::from_utf8_lossy(&out.stdout).lines() {
        let mut it = l.split_whitespace();
        if let (Some(i), Some(d)) = (it.next(), it.next()) {
            if let (Ok(i), Ok(d)) = (i.parse::<u64>(), u64::from_str_radix(d, 16)) {
                theirs.insert(i, d);
            }
        }
    }
    let mut mismatches = 0;
    let mut compared = 0;
    for (idx, mine) in ours.iter().filter(|(i, _)| **i < k) {
        match theirs.get(idx) {
            Some(d) if d == mine => compared += 1,
            Some(_) => { compared += 1; mismatches += 1; eprintln!("DETERMINISM: run {idx} differs between processes"); }
            None => {}
        }
    }
    Ok((compared, mismatches))
}

pub fn plan_run(check: &dyn Check, seed: u64, idx: u64, tier: &str) -> (Value, SimCfg) {
    let mut rng = Rng::new(rt::mix(seed, idx));
    let case = check.gen_case(&mut rng, idx, tier);
    let menu = check.buggify_menu();
    let mut cfg = draw_simcfg(&mut rng, &menu, check.max_steps());
    check.tune_cfg(&mut rng, &case, &mut cfg);
    (case, cfg)
}

pub fn do_run(check: &dyn Check, idx: u64, case: Value, cfg: SimCfg, replay: Option<(Vec<Vec<u32>>, bool)>) -> OneRun {
    let (report, traces, digest, steps, cps, stats, herr) = {
        let mut ex = Executor::new(&cfg, replay);
        let report = check.run_case(&case, &mut ex);
        let steps = ex.stats.iter().map(|s| s.steps).sum();
        let d = rt::mix(ex.digest(), report.outcome_digest);
        (report, std::mem::take(&mut ex.traces), d, steps, ex.choice_points, std::mem::take(&mut ex.stats), ex.harness_error.take())
    };
    OneRun { idx, case, cfg, report, traces, digest, steps, choice_points: cps, stats, harness_error: herr }
}

// ---------------------------------------------------------------------------------------------
// replay files
// ---------------------------------------------------------------------------------------------

pub fn replay_json(check: &dyn Check, seed: u64, r: &OneRun, v: &Violation) -> Value {
    json!({
        "property": check.id(),
        "harness": "yui-sim",
        "repo_rev": repo_rev(),
        "seed": seed.to_string(),
        "run_index": r.idx,
        "config": simcfg_to_json(&r.cfg),
        "workload": r.case,
        "faults": r.stats.iter().flat_map(|s| s.faults_fired.clone()).collect::<Vec<_>>(),
        "schedule": r.traces,
        "violation": { "class": v.class, "message": v.message },
    })
}

pub fn repo_rev() -> String {
    std::process::Command::new("git").args(["-C", "/repo", "rev-parse", "--short", "HEAD"]).output()
        .ok().map(|o| String::from_utf8_lossy(&o.stdout).trim().to_string()).unwrap_or_default()
}

/// Re-executes a replay file strictly; Ok(violation) if a violation was observed.
pub fn replay_file(check: &dyn Check, v: &Value, strict: bool) -> Result<Option<Violation>, String> {
    let cfg = simcfg_from_json(&v["config"]);
    let traces: Vec<Vec<u32>> = v["schedule"].as_array().ok_or("no schedule")?.iter()
        .map(|t| t.as_array().unwrap().iter().map(|x| x.as_u64().unwrap() as u32).collect()).collect();
    let replay = if traces.is_empty() { None } else { Some((traces, strict)) };
    let r = do_run(check, v["run_index"].as_u64().unwrap_or(0), v["workload"].clone(), cfg, replay);
    if let Some(e) = r.harness_error {
        return Err(e);
    }
    Ok(r.report.violation)
}

// ---------------------------------------------------------------------------------------------
// minimisation
// ---------------------------------------------------------------------------------------------

/// Shrinks workload, configuration and schedule while the same violation class persists.
pub fn minimise(check: &dyn Check, mut best: OneRun, class: &str, budget_runs: usize) -> OneRun {
    let mut spent = 0usize;
    let same = |r: &OneRun| r.harness_error.is_none() && r.report.violation.as_ref().map(|v| v.class == class).unwrap_or(false);

    // (1) workload, schedule regenerated from the same schedule seed
    let mut progress = true;
    while progress && spent < budget_runs {
        progress = false;
        'cands: for cand in check.shrink_case(&best.case) {
            // a smaller workload changes the schedule the same seed generates: try a few seeds
            for alt in 0..3u64 {
                if spent >= budget_runs {
                    break 'cands;
                }
                spent += 1;
                let mut cfg = best.cfg.clone();
                if alt > 0 {
                    cfg.sched_seed = rt::mix(cfg.sched_seed, alt);
                }
                let r = do_run(check, best.idx, cand.clone(), cfg, None);
                if same(&r) {
                    best = r;
                    progress = true;
                    break 'cands;
                }
            }
        }
    }
    // (2) configuration
    let mut cfg_cands: Vec<Box<dyn Fn(&mut SimCfg) -> bool>> = vec![];
    cfg_cands.push(Box::new(|c| { if c.run.par.workers > 2 { c.run.par.workers = 2; true } else { false } }));
    cfg_cands.push(Box::new(|c| { if c.run.par.workers > 1 { c.run.par.workers -= 1; true } else { false } }));
    cfg_cands.push(Box::new(|c| { if c.run.par.nested_workers > 1 { c.run.par.nested_workers = 1; true } else { false } }));
    cfg_cands.push(Box::new(|c| { if !c.run.buggify_sites.is_empty() { c.run.buggify_sites.pop(); true } else { false } }));
    cfg_cands.push(Box::new(|c| { if c.run.par.one_item_per_worker { c.run.par.one_item_per_worker = false; true } else { false } }));
    cfg_cands.push(Box::new(|c| { if c.run.par.all_on_one { c.run.par.all_on_one = false; true } else { false } }));
    cfg_cands.push(Box::new(|c| { if c.run.par.steal_while_waiting { c.run.par.steal_while_waiting = false; true } else { false } }));
    cfg_cands.push(Box::new(|c| { if c.run.par.pickup != Pickup::Front { c.run.par.pickup = Pickup::Front; true } else { false } }));
    cfg_cands.push(Box::new(|c| { if c.run.panic_faults.len() > 1 { c.run.panic_faults.pop(); true } else { false } }));
    let mut progress = true;
    while progress && spent < budget_runs {
        progress = false;
        for f in &cfg_cands {
            let mut c = best.cfg.clone();
            if !f(&mut c) {
                continue;
            }
            spent += 1;
            let r = do_run(check, best.idx, best.case.clone(), c, None);
            if same(&r) {
                best = r;
                progress = true;
            }
        }
    }
    // (3) schedule: replace chunks of decisions by the default policy (lenient replay), keep if the
    // class persists; the surviving run's *recorded* trace is what is reported.
    if best.traces.iter().map(|t| t.len()).sum::<usize>() > 0 {
        let mut chunk = best.traces.iter().map(|t| t.len()).max().unwrap_or(1).max(2) / 2;
        while chunk >= 1 && spent < budget_runs {
            let mut improved = false;
            'scan: for ti in 0..best.traces.len() {
                let mut start = 0;
                while start < best.traces[ti].len() && spent < budget_runs {
                    let mut cand = best.traces.clone();
                    let end = (start + chunk).min(cand[ti].len());
                    // u32::MAX is never runnable -> default policy at these steps
                    let changed = cand[ti][start..end].iter().any(|&x| x != u32::MAX);
                    for x in &mut cand[ti][start..end] {
                        *x = u32::MAX;
                    }
                    if changed {
                        spent += 1;
                        let r = do_run(check, best.idx, best.case.clone(), best.cfg.clone(), Some((cand.clone(), false)));
                        if same(&r) {
                            // keep the *masked* trace for further shrinking, remember the real one
                            let mut r = r;
                            r.traces = normalise_traces(&cand, &r.traces);
                            let shorter = count_forced(&r.traces) < count_forced(&best.traces);
                            if shorter {
                                best = r;
                                improved = true;
                                continue 'scan;
                            }
                        }
                    }
                    start += chunk;
                }
            }
            if !improved {
                chunk /= 2;
            }
        }
        // final: re-record the concrete trace under lenient replay, then it must replay strictly
        let r = do_run(check, best.idx, best.case.clone(), best.cfg.clone(), Some((best.traces.clone(), false)));
        if same(&r) {
            best = r;
        }
    }
    best
}

fn count_forced(t: &[Vec<u32>]) -> usize {
    t.iter().map(|x| x.iter().filter(|&&d| d != u32::MAX).count()).sum()
}

/// keep the masked positions masked (so later rounds know they are "free"), others as recorded
fn normalise_traces(masked: &[Vec<u32>], recorded: &[Vec<u32>]) -> Vec<Vec<u32>> {
    recorded.iter().enumerate().map(|(i, rec)| {
        rec.iter().enumerate().map(|(j, &d)| {
            if masked.get(i).and_then(|m| m.get(j)).copied() == Some(u32::MAX) { u32::MAX } else { d }
        }).collect()
    }).collect()
}

// ---------------------------------------------------------------------------------------------
// known findings
// ---------------------------------------------------------------------------------------------

pub struct KnownFindings {
    /// (property, key, description)
    pub open: Vec<(String, String, String)>,
}

impl KnownFindings {
    /// /verif/known_findings.txt, one entry per line:
    ///   finding: property=<id> key=<key> :: <what fails>      (open: suppresses exactly this key)
    ///   fixed: property=<id> <commit> <what failed>            (suppresses nothing)
    pub fn load() -> Self {
        let mut open = vec![];
        if let Ok(s) = std::fs::read_to_string("/verif/known_findings.txt") {
            for line in s.lines() {
                let Some(rest) = line.strip_prefix("finding: property=") else { continue };
                let Some((prop, rest)) = rest.split_once(" key=") else { continue };
                let (key, what) = rest.split_once(" :: ").unwrap_or((rest, ""));
                open.push((prop.trim().to_string(), key.to_string(), what.to_string()));
            }
        }
        KnownFindings { open }
    }
    pub fn matches(&self, prop: &str, key: &Option<String>) -> Option<String> {
        let k = key.as_ref()?;
        self.open.iter().find(|(p, kk, _)| p == prop && kk == k).map(|(_, k, w)| format!("{k}: {w}"))
    }
}

// ---------------------------------------------------------------------------------------------
// batch
// ---------------------------------------------------------------------------------------------

pub struct BatchOpts {
    pub seed: u64,
    pub tier: String,
    pub runs: u64,
    pub threads: usize,
    pub evidence_path: Option<String>,
    pub max_violations: usize,
    pub wall_limit_s: f64,
}

/// Streaming aggregate of a batch: only what evidence, cross-run checks, the determinism sample and
/// violation reports need is kept, so that multi-million-run batches stay small in memory.
#[derive(Default)]
struct Agg {
    n: u64,
    counters: BTreeMap<String, u64>,
    fault_counts: BTreeMap<String, u64>,
    steps: u64,
    choice_points: u64,
    digests: BTreeSet<u64>,
    nontrivial_digests: BTreeSet<u64>,
    outcome_classes: BTreeMap<String, u64>,
    strategies: BTreeMap<String, u64>,
    workers: BTreeMap<usize, u64>,
    par_calls: u64,
    hash_draws: u64,
    tls: (u64, u64),
    /// full runs with a violation or harness error (first few only)
    bad: Vec<OneRun>,
    n_bad: u64,
    /// (idx, full digest) of the first runs, for the determinism sample
    det: BTreeMap<u64, u64>,
    samples: BTreeMap<u64, Value>,
    /// (idx, case, report) for the cross-run check, only if the check has one
    hist: Vec<(u64, Value, RunReport)>,
}

impl Agg {
    fn absorb(&mut self, r: OneRun, det_k: u64, keep_hist: bool, max_bad: usize) {
        self.n += 1;
        self.steps += r.steps;
        self.choice_points += r.choice_points;
        self.digests.insert(r.digest);
        if r.report.nontrivial {
            self.nontrivial_digests.insert(r.digest);
        }
        if self.outcome_classes.len() < 500 || self.outcome_classes.contains_key(&r.report.outcome_class) {
            *self.outcome_classes.entry(r.report.outcome_class.clone()).or_insert(0) += 1;
        }
        *self.strategies.entry(r.cfg.strategy.describe().split(':').next().unwrap().to_string()).or_insert(0) += 1;
        *self.workers.entry(r.cfg.run.par.workers).or_insert(0) += 1;
        for (k, v) in &r.report.counters {
            *self.counters.entry(k.clone()).or_insert(0) += v;
        }
        for s in &r.stats {
            for (k, v) in &s.counters {
                *self.counters.entry(format!("probe:{k}")).or_insert(0) += v;
            }
            for (k, v) in &s.buggify_fired {
                *self.fault_counts.entry(format!("buggify:{k}")).or_insert(0) += v;
            }
            for f in &s.faults_fired {
                let kind = f.split(['@', '(', '{', ' ']).next().unwrap_or(f).to_string();
                *self.fault_counts.entry(kind).or_insert(0) += 1;
            }
            self.par_calls += s.par_calls;
            self.hash_draws += s.hash_draws;
            self.tls.0 += s.tls_inits;
            self.tls.1 += s.tls_reuse;
        }
        if r.cfg.run.par.one_item_per_worker { *self.fault_counts.entry("shim:one_item_per_worker".into()).or_insert(0) += 1; }
        if r.cfg.run.par.all_on_one { *self.fault_counts.entry("shim:all_on_one".into()).or_insert(0) += 1; }
        if matches!(r.cfg.strategy, Strategy::Stall { .. }) { *self.fault_counts.entry("sched:stall".into()).or_insert(0) += 1; }
        if r.idx < det_k {
            self.det.insert(r.idx, r.full_digest());
        }
        if r.idx < 4 || (r.report.nontrivial && self.samples.len() < 4) {
            self.samples.insert(r.idx, json!({
                "run_index": r.idx,
                "workload": r.case,
                "config": simcfg_to_json(&r.cfg),
                "schedule_prefix": r.traces.iter().map(|t| t.iter().take(40).collect::<Vec<_>>()).collect::<Vec<_>>(),
                "steps": r.steps,
                "outcome": r.report.outcome_class,
            }));
        }
        if keep_hist {
            let mut rep = r.report.clone();
            rep.counters.clear();
            self.hist.push((r.idx, r.case.clone(), rep));
        }
        if r.report.violation.is_some() || r.harness_error.is_some() {
            self.n_bad += 1;
            if self.bad.len() < max_bad {
                self.bad.push(r);
            }
        }
    }
}

/// see the watchdog in `run_batch`
pub const HANG_CPU_S: f64 = 120.0;
pub const HANG_WALL_S: f64 = 1800.0;

pub fn run_batch(check: &dyn Check, o: &BatchOpts) -> i32 {
    crate::core::init_process();
    let t0 = Instant::now();
    let next = AtomicU64::new(0);
    let stop = AtomicBool::new(false);
    let agg: Mutex<Agg> = Mutex::new(Agg::default());
    let det_k: u64 = if o.tier == "quick" { 64 } else { 1024 };
    let keep_hist = check.has_cross_check();
    // hang watchdog: (idx, started) per driver thread
    let inflight: Mutex<BTreeMap<usize, (u64, Instant)>> = Mutex::new(BTreeMap::new());
    let durations: Mutex<(f64, u64)> = Mutex::new((0.0, 0));
    let done_flag = AtomicBool::new(false);
    let hang: Mutex<Option<u64>> = Mutex::new(None);

    std::thread::scope(|s| {
        for t in 0..o.threads {
            let (next, stop, agg, inflight, durations) = (&next, &stop, &agg, &inflight, &durations);
            s.spawn(move || loop {
                if stop.load(Ordering::Relaxed) {
                    break;
                }
                if t0.elapsed().as_secs_f64() > o.wall_limit_s {
                    break;
                }
                let idx = next.fetch_add(1, Ordering::Relaxed);
                if idx >= o.runs {
                    break;
                }
                let (case, cfg) = plan_run(check, o.seed, idx, &o.tier);
                let st = Instant::now();
                crate::core::set_current_run(idx);
                inflight.lock().unwrap().insert(t, (idx, st));
                let r = do_run(check, idx, case, cfg, None);
                inflight.lock().unwrap().remove(&t);
                {
                    let mut d = durations.lock().unwrap();
                    d.0 += st.elapsed().as_secs_f64();
                    d.1 += 1;
                }
                let mut g = agg.lock().unwrap();
                g.absorb(r, det_k, keep_hist, o.max_violations.max(8));
                if g.n_bad as usize >= o.max_violations {
                    stop.store(true, Ordering::Relaxed);
                }
            });
        }
        // watchdog: a hang is a simulated execution that has burnt more than HANG_CPU_S seconds of
        // CPU (it spins in code without scheduling points) or has not finished after HANG_WALL_S
        // seconds of wall time (it is blocked at OS level).  CPU time, not wall time, so that an
        // oversubscribed machine cannot turn a slow run into a verdict.
        let _ = &durations;
        let (done_flag, hang, stop) = (&done_flag, &hang, &stop);
        s.spawn(move || {
            while !done_flag.load(Ordering::Relaxed) {
                std::thread::sleep(std::time::Duration::from_millis(500));
                let running: Vec<(i64, (u64, Instant))> = crate::core::RUNNING.lock().unwrap().iter().map(|(k, v)| (*k, *v)).collect();
                for (tid, (idx, st)) in running {
                    let cpu = crate::core::thread_cpu_seconds(tid).unwrap_or(0.0);
                    if cpu > HANG_CPU_S || st.elapsed().as_secs_f64() > HANG_WALL_S {
                        *hang.lock().unwrap() = Some(idx);
                        stop.store(true, Ordering::Relaxed);
                    }
                }
                if hang.lock().unwrap().is_some() {
                    break;
                }
            }
        });
        loop {
            std::thread::sleep(std::time::Duration::from_millis(20));
            let idle = inflight.lock().unwrap().is_empty();
            let exhausted = next.load(Ordering::Relaxed) >= o.runs || stop.load(Ordering::Relaxed)
                || t0.elapsed().as_secs_f64() > o.wall_limit_s;
            if let Some(idx) = *hang.lock().unwrap() {
                // a run is stuck in code without scheduling points: report and leave the process
                report_hang(check, o, idx);
            }
            if idle && exhausted {
                // give a driver that has fetched an index but not yet registered a moment
                std::thread::sleep(std::time::Duration::from_millis(50));
                if inflight.lock().unwrap().is_empty() {
                    break;
                }
            }
        }
        done_flag.store(true, Ordering::Relaxed);
    });

    finish_batch(check, o, agg.into_inner().unwrap(), det_k, t0)
}

fn report_hang(check: &dyn Check, o: &BatchOpts, idx: u64) -> ! {
    let (case, cfg) = plan_run(check, o.seed, idx, &o.tier);
    let v = Violation::new("hang", format!("a simulated execution burnt more than {HANG_CPU_S} s of CPU (or {HANG_WALL_S} s of wall time) without finishing"));
    let key = check.finding_key(&case, &v);
    let kf = KnownFindings::load();
    let file = json!({
        "property": check.id(), "harness": "yui-sim", "repo_rev": repo_rev(), "seed": o.seed.to_string(),
        "run_index": idx, "config": simcfg_to_json(&cfg), "workload": case, "faults": [], "schedule": [],
        "violation": { "class": v.class, "message": v.message },
    });
    if let Some(desc) = kf.matches(check.id(), &key) {
        println!("KNOWN-FINDING: property={} {}", check.id(), desc);
        println!("NOTE: batch stopped early at the known hanging input (run {idx}); evidence not rewritten");
        std::process::exit(0);
    }
    let path = format!("/verif/replays/{}-{}-{}.json", check.id(), o.seed, idx);
    std::fs::create_dir_all("/verif/replays").ok();
    std::fs::write(&path, serde_json::to_string_pretty(&file).unwrap()).unwrap();
    println!("VIOLATION property={} replay={}", check.id(), path);
    std::process::exit(1);
}

fn finish_batch(check: &dyn Check, o: &BatchOpts, mut agg: Agg, det_k: u64, t0: Instant) -> i32 {
    let kf = KnownFindings::load();
    let mut exit = 0;
    let mut n_viol = 0u64;
    let mut known_printed = BTreeSet::new();
    agg.bad.sort_by_key(|r| r.idx);
    agg.hist.sort_by_key(|h| h.0);

    // harness errors first: nothing else is believed
    for r in &agg.bad {
        if let Some(e) = &r.harness_error {
            eprintln!("HARNESS-ERROR property={} run={} {}", check.id(), r.idx, e);
            return 2;
        }
    }

    // cross-run checks over the recorded history
    let cross = check.cross_check(&agg.hist);
    let mut reports: Vec<(u64, Violation, bool)> = agg.bad.iter().map(|r| (r.idx, r.report.violation.clone().unwrap(), true)).collect();
    let mut seen: BTreeSet<u64> = reports.iter().map(|x| x.0).collect();
    for (i, v) in cross {
        if seen.insert(i) {
            reports.push((i, v, false));
        }
    }
    reports.sort_by_key(|x| x.0);

    let mut reported = 0;
    for (idx, v, per_run) in &reports {
        let (case, cfg) = plan_run(check, o.seed, *idx, &o.tier);
        let key = check.finding_key(&case, v);
        if let Some(desc) = kf.matches(check.id(), &key) {
            if known_printed.insert(desc.clone()) {
                println!("KNOWN-FINDING: property={} {}", check.id(), desc);
            }
            continue;
        }
        n_viol += 1;
        if reported >= 3 {
            continue;
        }
        reported += 1;
        // minimise (only per-run violations can be re-evaluated in isolation)
        let again = do_run(check, *idx, case.clone(), cfg.clone(), None);
        let minimised = if *per_run {
            if again.report.violation.as_ref().map(|x| &x.class) == Some(&v.class) {
                minimise(check, again, &v.class, 1500)
            } else {
                eprintln!("HARNESS-ERROR property={} run={} violation did not reproduce from its own seed", check.id(), idx);
                return 2;
            }
        } else {
            again
        };
        let vv = minimised.report.violation.clone().unwrap_or(v.clone());
        let file = replay_json(check, o.seed, &minimised, &vv);
        std::fs::create_dir_all("/verif/replays").ok();
        let path = format!("/verif/replays/{}-{}-{}.json", check.id(), o.seed, idx);
        std::fs::write(&path, serde_json::to_string_pretty(&file).unwrap()).unwrap();
        // the minimised file must reproduce strictly (per-run violations)
        if *per_run {
            match replay_file(check, &file, true) {
                Ok(Some(x)) if x.class == vv.class => {}
                other => {
                    eprintln!("HARNESS-ERROR property={} replay of {} gave {:?}", check.id(), path, other.map(|o| o.map(|v| v.class)));
                    return 2;
                }
            }
        }
        println!("VIOLATION property={} replay={}", check.id(), path);
        println!("  class={} message={}", vv.class, vv.message.chars().take(400).collect::<String>());
        exit = 1;
    }
    if agg.n_bad > agg.bad.len() as u64 {
        n_viol += agg.n_bad - agg.bad.len() as u64;
    }

    agg.fault_counts.insert("sched:preemption_choice_points".into(), agg.choice_points);
    agg.fault_counts.insert("hash:seed_draws".into(), agg.hash_draws);

    // determinism: the same runs in another process, with another driver-thread count
    let det = if exit == 0 && std::env::var_os("VERIF_NO_DETERMINISM").is_none() {
        match determinism_sample(check, o, &agg.det, det_k) {
            Ok((n, 0)) => json!({ "runs_compared": n, "processes": 2, "driver_threads": [o.threads, 3], "mismatches": 0 }),
            Ok((n, m)) => {
                eprintln!("HARNESS-ERROR property={} non-determinism: {} of {} re-executed runs differ", check.id(), m, n);
                exit = 2;
                json!({ "runs_compared": n, "mismatches": m })
            }
            Err(e) => {
                eprintln!("HARNESS-ERROR property={} determinism sample failed: {e}", check.id());
                exit = 2;
                json!({ "error": e })
            }
        }
    } else { json!(null) };

    let wall = t0.elapsed().as_secs_f64();
    if exit == 0 {
        for p in check.required_probes() {
            let n = agg.counters.get(p).copied().unwrap_or(0);
            if n == 0 && agg.n >= o.runs.min(200) {
                eprintln!("HARNESS-ERROR property={} required probe '{}' never fired in {} runs", check.id(), p, agg.n);
                exit = 2;
            }
        }
    }

    if let Some(path) = &o.evidence_path {
        let ev = json!({
            "property_id": check.id(),
            "tier": o.tier,
            "seed": o.seed,
            "level": check.level(),
            "coverage": {
                "evaluations": agg.n,
                "distinct_nontrivial": agg.nontrivial_digests.len(),
                "rule": check.rule(),
                "samples": agg.samples.values().collect::<Vec<_>>(),
                "distinct_event_digests": agg.digests.len(),
                "runs_per_hour": (agg.n as f64 / wall.max(1e-6) * 3600.0) as u64,
                "simulated_time": { "unit": "scheduling steps (no timers exist in yui; logical time only)", "total_steps": agg.steps, "choice_points": agg.choice_points },
                "fault_kinds_fired": agg.fault_counts,
                "probe_counters": agg.counters,
                "outcome_classes": agg.outcome_classes,
                "strategies": agg.strategies,
                "worker_counts": agg.workers.iter().map(|(k, v)| (k.to_string(), *v)).collect::<BTreeMap<_, _>>(),
                "parallel_calls": agg.par_calls,
                "tls_slots": { "inits": agg.tls.0, "reuses": agg.tls.1 },
                "cross_run_history_length": agg.hist.len(),
                "real_vs_stub": {
                    "real": "all code of yui, yui-matrix, yui-homology, yui-link, yui-kh, the ykh app modules and their third-party crates",
                    "stub": "rayon (executor re-implemented as a simulated worker pool), thread_local (slot storage keyed by simulated worker), the RwLock/Mutex objects at the three racing sites (simulator-owned, std semantics incl. poisoning), hash *seeds* of std/ahash (hashers are real), file reads (C20: simulated disk)"
                },
                "known_findings_matched": known_printed.iter().collect::<Vec<_>>(),
                "determinism_sample": det,
            },
            "assumptions": check.assumptions(),
            "wall_s": wall,
            "violations": n_viol,
        });
        if let Some(dir) = std::path::Path::new(path).parent() {
            std::fs::create_dir_all(dir).ok();
        }
        std::fs::write(path, serde_json::to_string_pretty(&ev).unwrap()).unwrap();
    }
    eprintln!(
        "[{}] tier={} seed={} runs={} distinct={} nontrivial-distinct={} steps={} wall={:.1}s violations={} exit={}",
        check.id(), o.tier, o.seed, agg.n, agg.digests.len(), agg.nontrivial_digests.len(), agg.steps, wall, n_viol, exit
    );
    exit
}

// ---------------------------------------------------------------------------------------------
// determinism proof
// ---------------------------------------------------------------------------------------------

/// digests of runs [from, to) — printed one per line by `yui-sim digests`, compared across
/// processes by `yui-sim determinism`
pub fn digests(check: &dyn Check, seed: u64, tier: &str, from: u64, to: u64, threads: usize) -> Vec<(u64, u64)> {
    crate::core::init_process();
    let next = AtomicU64::new(from);
    let out = Mutex::new(vec![]);
    std::thread::scope(|s| {
        for _ in 0..threads {
            s.spawn(|| loop {
                let idx = next.fetch_add(1, Ordering::Relaxed);
                if idx >= to {
                    break;
                }
                let (case, cfg) = plan_run(check, seed, idx, tier);
                let r = do_run(check, idx, case, cfg, None);
                out.lock().unwrap().push((idx, r.full_digest()));
            });
        }
    });
    let mut v = out.into_inner().unwrap();
    v.sort();
    v
}
