//! C05 — every Khovanov complex returned is a graded chain complex over any commutative ring,
//! and commutes with specialisation of polynomial parameters.
//!
//! The returned complex is path dependent (which deloopings / eliminations happened depends on
//! hash order, crossing order and the schedule), so the invariants are checked on every simulated
//! execution.

use num_bigint::BigInt;
use num_traits::Zero as _;
use refmodel::dense::{homology_field, homology_z, IsoType};
use refmodel::{Fp, Poly2 as RP, RefRing, DM, Q, Z};
use serde_json::{json, Value};
use yui::poly::{Mono, Poly, Poly2};
use yui::{FF, Ratio, Ring, RingOps};
use yui_homology::{ChainComplexTrait, GridTrait};
use yui_kh::kh::KhComplex;
use yui_verif_rt as rt;
use yui_verif_rt::Rng;

use crate::diag::{self, pd_from_json, pd_to_json};
use crate::framework::*;
use crate::khcommon::{describe_graded, link_of, reference, Graded};

pub struct C05;

/// base field/ring of the coefficients, reference side
pub trait Base: RefRing + Send + Sync + 'static {
    const MODULUS: Option<u32>;
    fn homology(n: usize, din: Option<&DM<Self>>, dout: Option<&DM<Self>>) -> IsoType;
}
impl Base for Z {
    const MODULUS: Option<u32> = None;
    fn homology(n: usize, din: Option<&DM<Self>>, dout: Option<&DM<Self>>) -> IsoType { homology_z(n, din, dout) }
}
impl Base for Q {
    const MODULUS: Option<u32> = Some(0);
    fn homology(n: usize, din: Option<&DM<Self>>, dout: Option<&DM<Self>>) -> IsoType { homology_field(n, din, dout) }
}
impl<const P: u32> Base for Fp<P> {
    const MODULUS: Option<u32> = Some(P);
    fn homology(n: usize, din: Option<&DM<Self>>, dout: Option<&DM<Self>>) -> IsoType { homology_field(n, din, dout) }
}

/// coefficient ring of the complex under test
pub trait CRing: Ring + Send + Sync + 'static
where
    for<'x> &'x Self: RingOps<Self>,
{
    type B: Base;
    const NAME: &'static str;
    /// (uses formal H, uses formal T)
    const FORMAL: (bool, bool);
    fn param_h(h: i64) -> Self;
    fn param_t(t: i64) -> Self;
    fn to_ref(&self) -> RP<Self::B>;
    /// the library's own evaluation of a formal-parameter entry at (h, t) (None: no formal parameter,
    /// or a coefficient type for which the library offers no `eval`: Ratio, FF)
    fn lib_eval(&self, _h: i64, _t: i64) -> Option<Self::B> { None }
}

fn zb(x: i64) -> Z { Z(BigInt::from(x)) }

impl CRing for i64 {
    type B = Z;
    const NAME: &'static str = "Z";
    const FORMAL: (bool, bool) = (false, false);
    fn param_h(h: i64) -> Self { h }
    fn param_t(t: i64) -> Self { t }
    fn to_ref(&self) -> RP<Z> { RP::constant(zb(*self)) }
}
impl CRing for Ratio<i64> {
    type B = Q;
    const NAME: &'static str = "Q";
    const FORMAL: (bool, bool) = (false, false);
    fn param_h(h: i64) -> Self { Ratio::new(h, 1) }
    fn param_t(t: i64) -> Self { Ratio::new(t, 1) }
    fn to_ref(&self) -> RP<Q> { RP::constant(Q::from_ints(*self.numer(), *self.denom())) }
}
impl CRing for FF<2> {
    type B = Fp<2>;
    const NAME: &'static str = "F2";
    const FORMAL: (bool, bool) = (false, false);
    fn param_h(h: i64) -> Self { FF::new(h.rem_euclid(2) as i32) }
    fn param_t(t: i64) -> Self { FF::new(t.rem_euclid(2) as i32) }
    fn to_ref(&self) -> RP<Fp<2>> { RP::constant(Fp::new(*self.rep() as i64)) }
}
impl CRing for FF<3> {
    type B = Fp<3>;
    const NAME: &'static str = "F3";
    const FORMAL: (bool, bool) = (false, false);
    fn param_h(h: i64) -> Self { FF::new(h.rem_euclid(3) as i32) }
    fn param_t(t: i64) -> Self { FF::new(t.rem_euclid(3) as i32) }
    fn to_ref(&self) -> RP<Fp<3>> { RP::constant(Fp::new(*self.rep() as i64)) }
}
impl CRing for Poly<'H', i64> {
    type B = Z;
    const NAME: &'static str = "Z[H]";
    const FORMAL: (bool, bool) = (true, false);
    fn param_h(_: i64) -> Self { Self::variable() }
    fn param_t(t: i64) -> Self { Self::from_const(t) }
    fn lib_eval(&self, h: i64, _t: i64) -> Option<Z> { Some(zb(self.eval(&h))) }
    fn to_ref(&self) -> RP<Z> {
        self.iter().fold(RP::zero(), |s, (x, c)| s.add(&RP::mono(x.deg() as u32, 0, zb(*c))))
    }
}
impl CRing for Poly<'T', i64> {
    type B = Z;
    const NAME: &'static str = "Z[T]";
    const FORMAL: (bool, bool) = (false, true);
    fn param_h(h: i64) -> Self { Self::from_const(h) }
    fn param_t(_: i64) -> Self { Self::variable() }
    fn lib_eval(&self, _h: i64, t: i64) -> Option<Z> { Some(zb(self.eval(&t))) }
    fn to_ref(&self) -> RP<Z> {
        self.iter().fold(RP::zero(), |s, (x, c)| s.add(&RP::mono(0, x.deg() as u32, zb(*c))))
    }
}
impl CRing for Poly2<'H', 'T', i64> {
    type B = Z;
    const NAME: &'static str = "Z[H,T]";
    const FORMAL: (bool, bool) = (true, true);
    fn param_h(_: i64) -> Self { Self::variable(0) }
    fn param_t(_: i64) -> Self { Self::variable(1) }
    fn lib_eval(&self, h: i64, t: i64) -> Option<Z> { Some(zb(self.eval(&h, &t))) }
    fn to_ref(&self) -> RP<Z> {
        self.iter().fold(RP::zero(), |s, (x, c)| { let (a, b) = x.deg(); s.add(&RP::mono(a as u32, b as u32, zb(*c))) })
    }
}
impl CRing for Poly<'H', Ratio<i64>> {
    type B = Q;
    const NAME: &'static str = "Q[H]";
    const FORMAL: (bool, bool) = (true, false);
    fn param_h(_: i64) -> Self { Self::variable() }
    fn param_t(t: i64) -> Self { Self::from_const(Ratio::new(t, 1)) }
    fn to_ref(&self) -> RP<Q> {
        self.iter().fold(RP::zero(), |s, (x, c)| s.add(&RP::mono(x.deg() as u32, 0, Q::from_ints(*c.numer(), *c.denom()))))
    }
}
impl CRing for Poly<'H', FF<2>> {
    type B = Fp<2>;
    const NAME: &'static str = "F2[H]";
    const FORMAL: (bool, bool) = (true, false);
    fn param_h(_: i64) -> Self { Self::variable() }
    fn param_t(t: i64) -> Self { Self::from_const(FF::new(t.rem_euclid(2) as i32)) }
    fn to_ref(&self) -> RP<Fp<2>> {
        self.iter().fold(RP::zero(), |s, (x, c)| s.add(&RP::mono(x.deg() as u32, 0, Fp::new(*c.rep() as i64))))
    }
}

impl CRing for yui::FF2 {
    type B = Fp<2>;
    const NAME: &'static str = "FF2";
    const FORMAL: (bool, bool) = (false, false);
    fn param_h(h: i64) -> Self { yui::FF2::from(h.rem_euclid(2)) }
    fn param_t(t: i64) -> Self { yui::FF2::from(t.rem_euclid(2)) }
    fn to_ref(&self) -> RP<Fp<2>> { RP::constant(Fp::new(if self.is_zero() { 0 } else { 1 })) }
}
impl CRing for Poly<'H', yui::FF2> {
    type B = Fp<2>;
    const NAME: &'static str = "FF2[H]";
    const FORMAL: (bool, bool) = (true, false);
    fn param_h(_: i64) -> Self { Self::variable() }
    fn param_t(t: i64) -> Self { Self::from_const(yui::FF2::from(t.rem_euclid(2))) }
    fn to_ref(&self) -> RP<Fp<2>> {
        self.iter().fold(RP::zero(), |s, (x, c)| s.add(&RP::mono(x.deg() as u32, 0, Fp::new(if c.is_zero() { 0 } else { 1 }))))
    }
}

/// what the simulated execution hands back: per homological degree the q-degrees of the
/// generators and the differential leaving that degree, already in reference form
pub struct Snapshot<B: Base> {
    pub degrees: Vec<i32>,
    pub qdegs: Vec<Vec<i32>>,
    pub d: Vec<DM<RP<B>>>,
    pub canon: Vec<(i32, DM<RP<B>>, bool)>, // (h-degree of the cycle, its vector in C^0, is zero)
}

pub fn snapshot<R: CRing>(c: &KhComplex<R>) -> Snapshot<R::B>
where
    for<'x> &'x R: RingOps<R>,
{
    use yui_kh::kh::KhChainExt;
    let mut degrees: Vec<i32> = c.support().map(|i| i as i32).collect();
    degrees.sort();
    let qdegs = degrees.iter().map(|&i| c[i as isize].raw_gens().iter().map(|x| x.q_deg() as i32).collect()).collect();
    let d = degrees.iter().map(|&i| {
        let m = c.d_matrix(i as isize);
        use yui_matrix::MatTrait;
        let (r, cc) = m.shape();
        DM::from_entries(r, cc, m.iter().map(|(a, b, v)| (a, b, v.to_ref())))
    }).collect();
    // (a truncated complex keeps the canonical cycles of the full one; those outside the kept
    // degrees have no summand to be expressed in)
    let canon = c.canon_cycles().iter().filter(|z| degrees.contains(&(z.h_deg() as i32))).map(|z| {
        let hd = z.h_deg() as i32;
        let v = c[hd as isize].vectorize(z);
        (hd, DM::from_entries(v.dim(), 1, v.iter().map(|(i, r)| (i, 0, r.to_ref()))), z.is_zero())
    }).collect();
    Snapshot { degrees, qdegs, d, canon }
}

/// d∘d = 0, degree +1, q-homogeneity.  Returns the first problem.
pub fn check_complex<B: Base>(s: &Snapshot<B>, formal: (bool, bool), h0: i64, t0: i64) -> Option<Violation> {
    let n = s.degrees.len();
    for k in 0..n {
        if k + 1 < n && s.degrees[k + 1] != s.degrees[k] + 1 {
            return Some(Violation::new("degree-gap", format!("support {:?} is not an interval", s.degrees)));
        }
        let cols = s.qdegs[k].len();
        let rows = if k + 1 < n { s.qdegs[k + 1].len() } else { 0 };
        if (s.d[k].rows, s.d[k].cols) != (rows, cols) {
            return Some(Violation::new("not-degree-plus-one", format!("d at degree {} is {}x{} but the neighbouring ranks are {} -> {}", s.degrees[k], s.d[k].rows, s.d[k].cols, cols, rows)));
        }
    }
    for k in 0..n.saturating_sub(1) {
        let dd = s.d[k + 1].mul(&s.d[k]);
        if !dd.is_zero() {
            return Some(Violation::new("dd-nonzero", format!("d∘d != 0 at homological degree {}", s.degrees[k])));
        }
    }
    // quantum grading: with deg h = -2, deg t = -4 every entry from x to y is homogeneous of
    // degree q(x) - q(y) (so that q(c*y) = deg c + q(y) = q(x)).  A numeric non-zero parameter breaks the grading by design.
    let graded = (formal.0 || h0 == 0) && (formal.1 || t0 == 0);
    if graded {
        for k in 0..n.saturating_sub(1) {
            for j in 0..s.d[k].cols {
                for i in 0..s.d[k].rows {
                    let e = s.d[k].get(i, j);
                    if e.is_zero() { continue; }
                    let want = s.qdegs[k][j] - s.qdegs[k + 1][i];
                    match e.homogeneous_degree() {
                        Ok(Some(dg)) if dg == want => {}
                        other => return Some(Violation::new("not-q-homogeneous", format!("entry {e:?} from a generator of q-degree {} to one of q-degree {} has degree {other:?}, expected {want}", s.qdegs[k][j], s.qdegs[k + 1][i]))),
                    }
                }
            }
        }
    }
    None
}

pub fn homology_at<B: Base>(s: &Snapshot<B>, h: i64, t: i64) -> Graded {
    let (hv, tv) = (B::from_i64(h), B::from_i64(t));
    let ds: Vec<DM<B>> = s.d.iter().map(|m| m.map(|p| p.eval(&hv, &tv))).collect();
    let mut out = Graded::new();
    for k in 0..s.degrees.len() {
        let din = if k > 0 { Some(&ds[k - 1]) } else { None };
        let dout = if k + 1 < s.degrees.len() { Some(&ds[k]) } else { None };
        let t = B::homology(s.qdegs[k].len(), din, dout);
        if !t.is_zero() { out.insert(s.degrees[k], t); }
    }
    out
}

fn run_typed<R: CRing>(case: &Value, ex: &mut Executor) -> RunReport
where
    for<'x> &'x R: RingOps<R>,
{
    let mut rep = RunReport::default();
    let pd = pd_from_json(&case["pd"]);
    let (h, t) = (case["h"].as_i64().unwrap(), case["t"].as_i64().unwrap());
    let reduced = case["reduced"].as_bool().unwrap();
    let pd2 = pd.clone();
    let trunc: Option<(i64, i64)> = case.get("trunc").and_then(|v| v.as_array()).map(|a| (a[0].as_i64().unwrap(), a[1].as_i64().unwrap()));
    let mut eval_points: Vec<(i64, i64)> = case["points"].as_array().map(|a| a.iter().map(|p| (p[0].as_i64().unwrap(), p[1].as_i64().unwrap())).collect()).unwrap_or_default();
    eval_points.extend([(0, 0), (1, 0), (0, 1), (2, 0), (0, -3), (-1, 0), (2, 3), (-1, 1)]);
    let res = ex.exec(None, rt::fs::Disk::default(), move || {
        let l = link_of(&pd2);
        let c = KhComplex::<R>::new(&l, &R::param_h(h), &R::param_t(t), reduced);
        let full = snapshot(&c);
        // the library's own evaluation of every entry at the sampled points and on a fixed grid
        // (axes included): compared entry by entry with the reference evaluation afterwards
        let lib_evals: Vec<((i64, i64), Vec<DM<R::B>>)> = if R::param_h(0).lib_eval(0, 0).is_some() {
            use yui_matrix::MatTrait;
            eval_points.iter().map(|&(h0, t0)| ((h0, t0), full.degrees.iter().map(|&i| {
                let m = c.d_matrix(i as isize);
                let (r, cc) = m.shape();
                DM::from_entries(r, cc, m.iter().map(|(a, b, v)| (a, b, v.lib_eval(h0, t0).unwrap())))
            }).collect())).collect()
        } else { vec![] };
        let part = trunc.and_then(|(a, b)| {
            let (lo0, hi0) = (*full.degrees.first()? as isize, *full.degrees.last()? as isize);
            let (lo, hi) = (lo0 + a as isize, hi0 - b as isize);
            (lo <= hi).then(|| (lo as i32, hi as i32, snapshot(&c.truncated(lo..=hi))))
        });
        (full, part, lib_evals)
    });
    let st = ex.stats.last().cloned().unwrap_or_default();
    rep.nontrivial = st.par_calls > 0 && st.hash_draws > 0;
    rep.counters.insert(format!("ring:{}", R::NAME), 1);
    let s = match res {
        Err(a) => {
            let v = abort_to_violation(&a);
            if is_machine_overflow(&v) && std::any::type_name::<R>().contains("i64") {
                rep.counters.insert("i64_overflow_skipped".into(), 1);
                rep.outcome_class = "i64-overflow".into();
                return rep;
            }
            rep.violation = Some(v);
            rep.outcome_class = "abort".into();
            return rep;
        }
        Ok(s) => s,
    };
    let (s, part, lib_evals) = s;
    for ((h0, t0), ds) in &lib_evals {
        let (hv, tv) = (<R::B as RefRing>::from_i64(*h0), <R::B as RefRing>::from_i64(*t0));
        for (k, m) in ds.iter().enumerate() {
            let want = s.d[k].map(|p| p.eval(&hv, &tv));
            if *m != want {
                rep.violation = Some(Violation::new("library-evaluation-wrong", format!("differential out of degree {} over {} evaluated by the library at (h,t)=({h0},{t0}) differs from the evaluation of its entries", s.degrees[k], R::NAME)));
                return rep;
            }
        }
        rep.counters.insert("library_evaluations_compared".into(), rep.counters.get("library_evaluations_compared").copied().unwrap_or(0) + 1);
    }
    // a truncated complex consists of exactly the requested degrees of the full one, with the same
    // generators and the same differential between kept degrees
    if let Some((lo, hi, p)) = &part {
        rep.counters.insert("truncations_checked".into(), 1);
        let keep: Vec<usize> = (0..s.degrees.len()).filter(|&k| (*lo..=*hi).contains(&s.degrees[k])).collect();
        let want_deg: Vec<i32> = keep.iter().map(|&k| s.degrees[k]).collect();
        let mut bad = None;
        if p.degrees != want_deg {
            bad = Some(format!("degrees {:?}, expected {:?}", p.degrees, want_deg));
        } else {
            for (pk, &k) in keep.iter().enumerate() {
                if p.qdegs[pk] != s.qdegs[k] {
                    bad = Some(format!("generators in degree {} differ", s.degrees[k]));
                    break;
                }
                let last = pk + 1 == keep.len();
                if !last && !(p.d[pk].rows == s.d[k].rows && p.d[pk].cols == s.d[k].cols && p.d[pk].sub(&s.d[k]).is_zero()) {
                    bad = Some(format!("differential out of degree {} differs", s.degrees[k]));
                    break;
                }
                if last && !p.d[pk].is_zero() {
                    bad = Some(format!("differential out of the top degree {} is not zero", s.degrees[k]));
                    break;
                }
            }
        }
        if let Some(b) = bad {
            rep.violation = Some(Violation::new("truncated-complex-wrong", format!("truncated({lo}..={hi}) of a complex supported in {:?}: {b}", s.degrees)));
            return rep;
        }
        if let Some(v) = check_complex(p, R::FORMAL, h, t) {
            rep.violation = Some(Violation::new("truncated-complex-wrong", format!("truncated({lo}..={hi}): {}", v.message)));
            return rep;
        }
    }
    let total: usize = s.qdegs.iter().map(|q| q.len()).sum();
    rep.outcome_class = format!("{} generators", total.min(200));
    rep.outcome_digest = rt::mix(total as u64, s.d.iter().map(|m| m.nnz() as u64).sum());
    rep.detail = format!("{total}");
    if let Some(v) = check_complex(&s, R::FORMAL, h, t) {
        rep.violation = Some(v);
        return rep;
    }
    if pd.len() > case["ref_max"].as_u64().unwrap_or(crate::c01::REF_MAX_CROSSINGS as u64) as usize { return rep; }
    // specialisation: evaluate at integer points and compare with the definition at those points
    let points: Vec<(i64, i64)> = case["points"].as_array().unwrap().iter().map(|p| (p[0].as_i64().unwrap(), p[1].as_i64().unwrap())).collect();
    for (h0, t0) in points {
        let (h0, t0) = (if R::FORMAL.0 { h0 } else { h }, if R::FORMAL.1 { t0 } else { t });
        if reduced && t0 != 0 { continue; }
        let refs = crate::khcommon::references(&pd, h0, t0, reduced, <R::B as Base>::MODULUS);
        let got = homology_at(&s, h0, t0);
        rep.counters.insert("specialisations_compared".into(), rep.counters.get("specialisations_compared").copied().unwrap_or(0) + 1);
        if refs.iter().any(|r| r.graded == got) { continue; }
        let r = &refs[0];
        if got != r.graded {
            rep.violation = Some(Violation::new("specialisation-differs-from-cube", format!("complex over {} evaluated at (h,t)=({h0},{t0}): {} ; cube of resolutions: {}", R::NAME, describe_graded(&got), describe_graded(&r.graded))));
            return rep;
        }
    }
    rep
}

impl Check for C05 {
    fn id(&self) -> &'static str { "C05" }
    fn rule(&self) -> String {
        "one run = (diagram, coefficient ring in {Z, Q, F2, F3, Z[H], Z[T], Z[H,T], Q[H], F2[H]}, parameters, reduced, crossing order) x substrate configuration (workers, pick-up, strategy, schedule seed, hash seeds). Per execution: own dense d∘d = 0, shapes chain up (degree +1), every entry is homogeneous of degree q(source)-q(target) with deg H=-2, deg T=-4, and the complex evaluated at up to 3 integer points has the homology of the cube-of-resolutions complex at that point (own Smith / rank). distinct = distinct event-log digests; non-trivial = parallel calls made and hash seeds drawn".into()
    }
    fn assumptions(&self) -> Vec<String> {
        vec![
            "rayon executor semantics modelled by the shim".into(),
            "evaluation points are integers (reduced mod p for F_p[H])".into(),
            "grading homogeneity is only meaningful when every non-zero parameter is a formal variable".into(),
            "i64 arithmetic-overflow panics are not counted (machine integers are not Z)".into(),
        ]
    }
    fn required_probes(&self) -> Vec<&'static str> {
        vec!["specialisations_compared", "ring:Z[H]", "ring:Z[T]", "ring:Z[H,T]", "ring:Q[H]", "ring:F2[H]", "ring:Z", "ring:Q", "ring:F2", "ring:F3"]
    }
    fn max_steps(&self) -> usize { 20_000_000 }
    fn runs(&self, tier: &str) -> u64 { if tier == "quick" { 15_000 } else { 1_000_000 } }
    fn gen_case(&self, rng: &mut Rng, _idx: u64, tier: &str) -> Value {
        let max_x = if tier == "quick" { 8 } else { 10 };
        // one run in 100: a heavily kinked diagram with more than 32 crossings (structure and grading
        // checks only; the specialisation oracle applies up to ref_max crossings)
        let kinked = rng.chance(1, 100);
        let (name, pd) = if kinked { let (n, p, _) = diag::draw_kinked(rng); (n, p) } else { diag::draw(rng, max_x) };
        let pd = diag::permute_crossings(rng, &pd);
        // (the library's cost on heavily kinked diagrams explodes for non-zero or formal parameters)
        let ring = if kinked { *rng.pick(&["Z", "Q", "F2", "F3"]) } else { *rng.pick(&["Z", "Q", "F2", "F3", "Z[H]", "Z[H]", "Z[T]", "Z[H,T]", "Z[H,T]", "Q[H]", "F2[H]"]) };
        let (h, t) = if ring.contains('[') || kinked { (0, 0) } else { crate::c01::draw_ht(rng) };
        let formal_t = ring.contains('T');
        let reduced = !formal_t && t == 0 && !pd.is_empty() && rng.chance(1, 3);
        let pts: Vec<Value> = (0..3).map(|_| { let (a, b) = crate::c01::draw_ht(rng); json!([a, b]) }).collect();
        let mut case = json!({ "name": name, "pd": pd_to_json(&pd), "ring": ring, "h": h, "t": t, "reduced": reduced, "points": pts, "ref_max": if tier == "quick" { crate::c01::REF_MAX_CROSSINGS } else { crate::c01::REF_MAX_CROSSINGS + 1 } });
        if rng.chance(1, 5) { case["trunc"] = json!([rng.below(3), rng.below(3)]); }
        case
    }
    fn run_case(&self, case: &Value, ex: &mut Executor) -> RunReport {
        match case["ring"].as_str().unwrap() {
            "Z" => run_typed::<i64>(case, ex),
            "Q" => run_typed::<Ratio<i64>>(case, ex),
            "F2" => run_typed::<FF<2>>(case, ex),
            "F3" => run_typed::<FF<3>>(case, ex),
            "Z[H]" => run_typed::<Poly<'H', i64>>(case, ex),
            "Z[T]" => run_typed::<Poly<'T', i64>>(case, ex),
            "Z[H,T]" => run_typed::<Poly2<'H', 'T', i64>>(case, ex),
            "Q[H]" => run_typed::<Poly<'H', Ratio<i64>>>(case, ex),
            "F2[H]" => run_typed::<Poly<'H', FF<2>>>(case, ex),
            other => panic!("ring {other}"),
        }
    }
}
