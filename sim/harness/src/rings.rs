//! Binding between yui's coefficient types (system under test) and the reference rings (oracle).
//! Values travel as JSON: Z -> 5, Q -> [n,d], F2/F3 -> 1, ZH -> [[e,c],..], ZI -> [a,b].

use num_bigint::BigInt;
use num_traits::ToPrimitive;
use refmodel::{Fp, GaussZ, Poly2 as RPoly2, RefRing, Q, Z};
use serde_json::{json, Value};
use yui::poly::{Mono, Poly};
use yui::{FF, GaussInt, Ratio, Ring, RingOps};
use yui_verif_rt::Rng;

pub trait SimRing: Ring + Send + Sync + 'static
where
    for<'x> &'x Self: RingOps<Self>,
{
    type Ref: RefRing + Send + Sync + 'static;
    const NAME: &'static str;
    fn from_json(v: &Value) -> Self;
    fn ref_from_json(v: &Value) -> Self::Ref;
    fn to_ref(&self) -> Self::Ref;
    fn ref_to_json(r: &Self::Ref) -> Value;
    /// weight of a reference value as the pivot condition `Weight(w)` understands it
    fn ref_weight(r: &Self::Ref) -> f64;
    /// a random value; `kind`: 0 = anything small, 1 = +-1, 2 = a unit, 3 = a non-unit non-zero
    fn gen(rng: &mut Rng, kind: u32) -> Value;
    fn json_is_zero(v: &Value) -> bool {
        Self::ref_from_json(v).is_zero()
    }
}

fn big(v: &Value) -> BigInt {
    BigInt::from(v.as_i64().expect("integer"))
}

impl SimRing for i64 {
    type Ref = Z;
    const NAME: &'static str = "Z";
    fn from_json(v: &Value) -> Self {
        v.as_i64().unwrap()
    }
    fn ref_from_json(v: &Value) -> Z {
        Z(big(v))
    }
    fn to_ref(&self) -> Z {
        Z(BigInt::from(*self))
    }
    fn ref_to_json(r: &Z) -> Value {
        json!(r.0.to_i64().expect("reference value fits i64"))
    }
    fn ref_weight(r: &Z) -> f64 {
        r.0.to_f64().unwrap().abs()
    }
    fn gen(rng: &mut Rng, kind: u32) -> Value {
        match kind {
            1 | 2 => json!(if rng.chance(1, 2) { 1 } else { -1 }),
            3 => json!(*rng.pick(&[2i64, -2, 3, -3, 4, 5, -6])),
            _ => json!(*rng.pick(&[1i64, -1, 1, -1, 1, 2, -2, 3, -3, 5])),
        }
    }
}

impl SimRing for BigInt {
    type Ref = Z;
    const NAME: &'static str = "ZB";
    fn from_json(v: &Value) -> Self {
        BigInt::from(v.as_i64().unwrap())
    }
    fn ref_from_json(v: &Value) -> Z {
        Z(big(v))
    }
    fn to_ref(&self) -> Z {
        Z(self.clone())
    }
    fn ref_to_json(r: &Z) -> Value {
        json!(r.0.to_i64().expect("reference value fits i64"))
    }
    fn ref_weight(r: &Z) -> f64 {
        r.0.to_f64().unwrap().abs()
    }
    fn gen(rng: &mut Rng, kind: u32) -> Value {
        <i64 as SimRing>::gen(rng, kind)
    }
}

impl SimRing for Ratio<i64> {
    type Ref = Q;
    const NAME: &'static str = "Q";
    fn from_json(v: &Value) -> Self {
        Ratio::new(v[0].as_i64().unwrap(), v[1].as_i64().unwrap())
    }
    fn ref_from_json(v: &Value) -> Q {
        Q::new(big(&v[0]), big(&v[1]))
    }
    fn to_ref(&self) -> Q {
        Q::new(BigInt::from(*self.numer()), BigInt::from(*self.denom()))
    }
    fn ref_to_json(r: &Q) -> Value {
        json!([r.n.to_i64().expect("fits"), r.d.to_i64().expect("fits")])
    }
    fn ref_weight(r: &Q) -> f64 {
        f64::max(r.n.to_f64().unwrap().abs(), r.d.to_f64().unwrap().abs())
    }
    fn gen(rng: &mut Rng, kind: u32) -> Value {
        match kind {
            1 => json!([if rng.chance(1, 2) { 1 } else { -1 }, 1]),
            3 => json!([0, 1]), // Q has no non-zero non-units; callers treat 0 as "no entry"
            _ => json!([*rng.pick(&[1i64, -1, 2, -2, 3, 1, -1, 5]), *rng.pick(&[1i64, 1, 1, 2, 3])]),
        }
    }
}

macro_rules! ff_impl {
    ($p:literal, $name:literal) => {
        impl SimRing for FF<$p> {
            type Ref = Fp<$p>;
            const NAME: &'static str = $name;
            fn from_json(v: &Value) -> Self {
                FF::<$p>::new(v.as_i64().unwrap() as i32)
            }
            fn ref_from_json(v: &Value) -> Fp<$p> {
                Fp::<$p>::new(v.as_i64().unwrap())
            }
            fn to_ref(&self) -> Fp<$p> {
                Fp::<$p>::new(*self.rep() as i64)
            }
            fn ref_to_json(r: &Fp<$p>) -> Value {
                json!(r.0)
            }
            fn ref_weight(r: &Fp<$p>) -> f64 {
                if r.0 == 0 { 0.0 } else { 1.0 }
            }
            fn gen(rng: &mut Rng, kind: u32) -> Value {
                match kind {
                    1 => json!(if $p == 2 || rng.chance(1, 2) { 1 } else { $p - 1 }),
                    3 => json!(0),
                    _ => json!(1 + rng.below($p - 1)),
                }
            }
        }
    };
}
ff_impl!(2, "F2");
ff_impl!(3, "F3");
// a field with units other than +-1 and no coefficient growth (Q has the former, not the latter)
ff_impl!(7, "F7");

type ZH = Poly<'H', i64>;

impl SimRing for ZH {
    type Ref = RPoly2<Z>;
    const NAME: &'static str = "ZH";
    fn from_json(v: &Value) -> Self {
        v.as_array().unwrap().iter().map(|t| {
            (ZH::mono(t[0].as_u64().unwrap() as usize), t[1].as_i64().unwrap())
        }).collect()
    }
    fn ref_from_json(v: &Value) -> RPoly2<Z> {
        let mut s = RPoly2::<Z>::zero();
        for t in v.as_array().unwrap() {
            s = s.add(&RPoly2::mono(t[0].as_u64().unwrap() as u32, 0, Z(big(&t[1]))));
        }
        s
    }
    fn to_ref(&self) -> RPoly2<Z> {
        let mut s = RPoly2::<Z>::zero();
        for (x, c) in self.iter() {
            s = s.add(&RPoly2::mono(x.deg() as u32, 0, Z(BigInt::from(*c))));
        }
        s
    }
    fn ref_to_json(r: &RPoly2<Z>) -> Value {
        Value::Array(r.0.iter().map(|((eh, _), c)| json!([eh, c.0.to_i64().expect("fits")])).collect())
    }
    fn ref_weight(r: &RPoly2<Z>) -> f64 {
        if r.is_zero() { 0.0 } else { 1.0 }
    }
    fn gen(rng: &mut Rng, kind: u32) -> Value {
        match kind {
            1 | 2 => json!([[0, if rng.chance(1, 2) { 1 } else { -1 }]]),
            3 => match rng.below(3) {
                0 => json!([[1, 1]]),
                1 => json!([[0, 2]]),
                _ => json!([[0, 1], [1, *rng.pick(&[1i64, -1, 2])]]),
            },
            _ => match rng.below(4) {
                0 | 1 => json!([[0, if rng.chance(1, 2) { 1 } else { -1 }]]),
                2 => json!([[rng.below(3), *rng.pick(&[1i64, -1, 2])]]),
                _ => json!([[0, *rng.pick(&[1i64, -1, 2])], [1 + rng.below(2), *rng.pick(&[1i64, -1])]]),
            },
        }
    }
}

type ZI = GaussInt<i64>;

impl SimRing for ZI {
    type Ref = GaussZ;
    const NAME: &'static str = "ZI";
    fn from_json(v: &Value) -> Self {
        ZI::new(v[0].as_i64().unwrap(), v[1].as_i64().unwrap())
    }
    fn ref_from_json(v: &Value) -> GaussZ {
        GaussZ(big(&v[0]), big(&v[1]))
    }
    fn to_ref(&self) -> GaussZ {
        GaussZ(BigInt::from(*self.left()), BigInt::from(*self.right()))
    }
    fn ref_to_json(r: &GaussZ) -> Value {
        json!([r.0.to_i64().expect("fits"), r.1.to_i64().expect("fits")])
    }
    fn ref_weight(r: &GaussZ) -> f64 {
        if r.is_zero() { 0.0 } else { 1.0 }
    }
    fn gen(rng: &mut Rng, kind: u32) -> Value {
        let units = [[1, 0], [-1, 0], [0, 1], [0, -1]];
        match kind {
            1 => json!(*rng.pick(&units[..2])),
            2 => json!(*rng.pick(&units)),
            3 => json!(*rng.pick(&[[1, 1], [2, 0], [1, -2], [0, 3]])),
            _ => {
                if rng.chance(1, 2) { json!(*rng.pick(&units)) } else { json!([rng.range(-2, 2), rng.range(-2, 2)]) }
            }
        }
    }
}

/// Calls `$f::<R>($args)` with R chosen by the ring name.
#[macro_export]
macro_rules! dispatch_ring {
    ($name:expr, $f:ident, $($args:expr),*) => {
        match $name {
            "Z" => $f::<i64>($($args),*),
            "ZB" => $f::<num_bigint::BigInt>($($args),*),
            "Q" => $f::<yui::Ratio<i64>>($($args),*),
            "F2" => $f::<yui::FF<2>>($($args),*),
            "F3" => $f::<yui::FF<3>>($($args),*),
            "F7" => $f::<yui::FF<7>>($($args),*),
            "ZH" => $f::<yui::poly::Poly<'H', i64>>($($args),*),
            "ZI" => $f::<yui::GaussInt<i64>>($($args),*),
            other => panic!("unknown ring {other}"),
        }
    };
}

/// sparse matrix <-> JSON {"m":..,"n":..,"entries":[[i,j,val],..]}
pub fn spmat_from_json<R: SimRing>(v: &Value) -> yui_matrix::sparse::SpMat<R>
where
    for<'x> &'x R: RingOps<R>,
{
    let m = v["m"].as_u64().unwrap() as usize;
    let n = v["n"].as_u64().unwrap() as usize;
    let es = v["entries"].as_array().unwrap().iter().map(|e| {
        (e[0].as_u64().unwrap() as usize, e[1].as_u64().unwrap() as usize, R::from_json(&e[2]))
    });
    yui_matrix::sparse::SpMat::from_entries((m, n), es)
}

pub fn dm_from_json<R: SimRing>(v: &Value) -> refmodel::DM<R::Ref>
where
    for<'x> &'x R: RingOps<R>,
{
    let m = v["m"].as_u64().unwrap() as usize;
    let n = v["n"].as_u64().unwrap() as usize;
    refmodel::DM::from_entries(m, n, v["entries"].as_array().unwrap().iter().map(|e| {
        (e[0].as_u64().unwrap() as usize, e[1].as_u64().unwrap() as usize, R::ref_from_json(&e[2]))
    }))
}

pub fn dm_to_json<R: SimRing>(a: &refmodel::DM<R::Ref>) -> Value
where
    for<'x> &'x R: RingOps<R>,
{
    let mut es = vec![];
    for i in 0..a.rows {
        for j in 0..a.cols {
            if !a.get(i, j).is_zero() {
                es.push(json!([i, j, R::ref_to_json(a.get(i, j))]));
            }
        }
    }
    json!({ "m": a.rows, "n": a.cols, "entries": es })
}

pub fn spmat_to_dm<R: SimRing>(a: &yui_matrix::sparse::SpMat<R>) -> refmodel::DM<R::Ref>
where
    for<'x> &'x R: RingOps<R>,
{
    use yui_matrix::MatTrait;
    let (m, n) = a.shape();
    refmodel::DM::from_entries(m, n, a.iter().map(|(i, j, r)| (i, j, r.to_ref())))
}
