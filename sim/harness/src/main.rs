//! yui-sim — deterministic simulation harness for taketo1024/yui.
//!
//!   yui-sim run <ID> --tier quick|thorough [--seed N] [--runs N] [--threads N] [--evidence PATH]
//!   yui-sim replay <file.json>
//!   yui-sim digests <ID> --seed N --from A --to B [--threads N]     (one "idx digest" per line)
//!   yui-sim one <ID> --seed N --index I                              (debug: run a single index)
//!
//! exit 0 = property held on everything explored, 1 = VIOLATION line printed, 2 = harness error.

mod core;
mod framework;
mod rings;
mod matgen;
mod c11;
mod c12;
mod c08;
mod diagrams;
mod diag;
mod khcommon;
mod c01;
mod c05;
mod c03;
mod c06;
mod c19;
mod c20;

use framework::*;

fn check_by_id(id: &str) -> Option<Box<dyn Check>> {
    match id {
        "C11" => Some(Box::new(c11::C11)),
        "C12" => Some(Box::new(c12::C12)),
        "C08" => Some(Box::new(c08::C08)),
        "C01" => Some(Box::new(c01::C01)),
        "C05" => Some(Box::new(c05::C05)),
        "C03" => Some(Box::new(c03::C03)),
        "C06" => Some(Box::new(c06::C06)),
        "C19" => Some(Box::new(c19::C19)),
        "C20" => Some(Box::new(c20::C20)),
        _ => None,
    }
}

fn arg<'a>(args: &'a [String], name: &str) -> Option<&'a str> {
    args.iter().position(|a| a == name).and_then(|i| args.get(i + 1)).map(|s| s.as_str())
}

fn main() {
    let args: Vec<String> = std::env::args().collect();
    let code = real_main(&args);
    std::process::exit(code);
}

fn real_main(args: &[String]) -> i32 {
    if args.len() < 3 {
        eprintln!("usage: yui-sim run|replay|digests|one ...");
        return 2;
    }
    let env_seed = std::env::var("VERIF_SEED").ok().and_then(|s| s.parse::<u64>().ok());
    let seed = arg(args, "--seed").and_then(|s| s.parse().ok()).or(env_seed).unwrap_or(1);
    let threads = arg(args, "--threads").and_then(|s| s.parse().ok())
        .unwrap_or_else(|| std::thread::available_parallelism().map(|n| n.get()).unwrap_or(8).min(16));
    match args[1].as_str() {
        "run" => {
            let Some(check) = check_by_id(&args[2]) else {
                eprintln!("unknown check {}", args[2]);
                return 2;
            };
            let tier = arg(args, "--tier").unwrap_or("quick").to_string();
            let runs = arg(args, "--runs").and_then(|s| s.parse().ok()).unwrap_or_else(|| check.runs(&tier));
            let wall = arg(args, "--wall").and_then(|s| s.parse().ok()).unwrap_or(if tier == "quick" { 600.0 } else { 6.0 * 3600.0 });
            let o = BatchOpts {
                seed,
                tier,
                runs,
                threads,
                evidence_path: arg(args, "--evidence").map(|s| s.to_string()),
                max_violations: 3,
                wall_limit_s: wall,
            };
            run_batch(check.as_ref(), &o)
        }
        "replay" => {
            let text = match std::fs::read_to_string(&args[2]) {
                Ok(t) => t,
                Err(e) => {
                    eprintln!("cannot read {}: {e}", args[2]);
                    return 2;
                }
            };
            let v: serde_json::Value = serde_json::from_str(&text).expect("replay file is JSON");
            let id = v["property"].as_str().unwrap_or("");
            let Some(check) = check_by_id(id) else {
                eprintln!("unknown check {id}");
                return 2;
            };
            crate::core::init_process();
            let want = v["violation"]["class"].as_str().unwrap_or("").to_string();
            if want == "hang" {
                // the recorded violation is a run that never finishes: replay it under the same
                // wall-clock bound the batch watchdog used
                let (tx, rx) = std::sync::mpsc::channel();
                let v2 = v.clone();
                let id2 = id.to_string();
                std::thread::spawn(move || {
                    let check = check_by_id(&id2).unwrap();
                    let _ = tx.send(replay_file(check.as_ref(), &v2, true));
                });
                return match rx.recv_timeout(std::time::Duration::from_secs(framework::HANG_CPU_S as u64 + 30)) {
                    Err(_) => {
                        println!("VIOLATION property={} replay={}", id, args[2]);
                        println!("  reproduced: class=hang (no result within {} s)", framework::HANG_CPU_S as u64 + 30);
                        1
                    }
                    Ok(Ok(None)) => { println!("replay of {} finished normally on this tree", args[2]); 0 }
                    Ok(Ok(Some(x))) => { println!("VIOLATION property={} replay={}", id, args[2]); println!("  run finished with class={} instead of hanging", x.class); 1 }
                    Ok(Err(e)) => { eprintln!("HARNESS-ERROR replay: {e}"); 2 }
                };
            }
            match replay_file(check.as_ref(), &v, true) {
                Err(e) => {
                    eprintln!("HARNESS-ERROR replay: {e}");
                    2
                }
                Ok(Some(x)) if x.class == want => {
                    println!("VIOLATION property={} replay={}", id, args[2]);
                    println!("  reproduced: class={} message={}", x.class, x.message.chars().take(400).collect::<String>());
                    1
                }
                Ok(Some(x)) => {
                    eprintln!("HARNESS-ERROR replay produced a different violation class: {} (recorded {})", x.class, want);
                    2
                }
                Ok(None) => {
                    println!("replay of {} did not violate the property on this tree", args[2]);
                    0
                }
            }
        }
        "digests" => {
            let Some(check) = check_by_id(&args[2]) else { return 2 };
            let tier = arg(args, "--tier").unwrap_or("quick").to_string();
            let from = arg(args, "--from").and_then(|s| s.parse().ok()).unwrap_or(0);
            let to = arg(args, "--to").and_then(|s| s.parse().ok()).unwrap_or(64);
            for (i, d) in digests(check.as_ref(), seed, &tier, from, to, threads) {
                println!("{i} {d:016x}");
            }
            0
        }
        "determinism" => {
            // N run indices, executed in two child processes with different driver-thread counts
            let Some(_) = check_by_id(&args[2]) else { return 2 };
            let tier = arg(args, "--tier").unwrap_or("quick").to_string();
            let n: u64 = arg(args, "--n").and_then(|s| s.parse().ok()).unwrap_or(256);
            let exe = std::env::current_exe().unwrap();
            let run = |threads: &str| -> Vec<String> {
                let out = std::process::Command::new(&exe)
                    .args(["digests", &args[2], "--seed", &seed.to_string(), "--tier", &tier, "--from", "0", "--to", &n.to_string(), "--threads", threads])
                    .output().expect("child");
                String::from_utf8_lossy(&out.stdout).lines().map(|s| s.to_string()).collect()
            };
            let (a, b) = (run("1"), run("16"));
            let diff = a.iter().zip(&b).filter(|(x, y)| x != y).count() + a.len().abs_diff(b.len());
            println!("determinism {}: {} runs x 2 processes (1 and 16 driver threads), {} differences", args[2], a.len(), diff);
            if diff == 0 && a.len() as u64 == n { 0 } else { 2 }
        }
        "timekh" => {
            // debug: cost of one simulated C03-style run on a torus knot T(p,q)
            let p: usize = args[2].parse().unwrap();
            let q: usize = args[3].parse().unwrap();
            let pd = crate::diag::torus(p, q, 1);
            println!("T({p},{q}): {} crossings, valid={}", pd.len(), crate::diag::is_valid(&pd));
            crate::core::init_process();
            let check = check_by_id("C03").unwrap();
            let case = serde_json::json!({"name": "torus", "pd": crate::diag::pd_to_json(&pd), "bigint": false});
            let (_, cfg) = plan_run(check.as_ref(), 1, 0, "quick");
            let t = std::time::Instant::now();
            let r = do_run(check.as_ref(), 0, case, cfg, None);
            println!("C03 run: {:?} steps={} violation={:?} detail={}", t.elapsed(), r.steps, r.report.violation, r.report.detail);
            0
        }
        "timekink" => {
            // debug: cost of the library (outside the simulation) on heavily kinked diagrams
            let k: usize = args[2].parse().unwrap();
            let sd: u64 = args[3].parse().unwrap();
            let nested = args.get(4).map(|s| s == "nested").unwrap_or(false);
            let mut rng = yui_verif_rt::Rng::new(sd);
            let mut pd = crate::diag::table("3_1");
            for _ in 0..k {
                let es = if nested { refmodel::link::Diagram::from_pd(&pd).edges() } else { (1..=6u32).collect() };
                pd = crate::diag::add_kink(&pd, *rng.pick(&es), rng.below(4) as u32);
            }
            let pd = crate::diag::permute_crossings(&mut rng, &pd);
            let t = std::time::Instant::now();
            let l = crate::khcommon::link_of(&pd);
            let hh: i64 = std::env::var("KH_H").ok().and_then(|s| s.parse().ok()).unwrap_or(0); let kh = yui_kh::kh::KhHomology::<i64>::new(&l, &hh, &0, false);
            println!("k={k} crossings={} time={:?} {}", pd.len(), t.elapsed(), crate::khcommon::describe_graded(&crate::khcommon::graded_of(&kh).unwrap()));
            0
        }
        "one" => {
            let Some(check) = check_by_id(&args[2]) else { return 2 };
            let tier = arg(args, "--tier").unwrap_or("quick").to_string();
            let idx = arg(args, "--index").and_then(|s| s.parse().ok()).unwrap_or(0);
            crate::core::init_process();
            let (case, cfg) = plan_run(check.as_ref(), seed, idx, &tier);
            println!("case: {case}");
            println!("cfg: {}", simcfg_to_json(&cfg));
            let r = do_run(check.as_ref(), idx, case, cfg, None);
            println!("report: {:?}", r.report);
            println!("steps={} choice_points={} digest={:016x} harness_error={:?}", r.steps, r.choice_points, r.digest, r.harness_error);
            for s in &r.stats {
                println!("counters: {:?} buggify: {:?} par_calls={} tls={}/{} fault_points={:?} fired={:?}", s.counters, s.buggify_fired, s.par_calls, s.tls_inits, s.tls_reuse, s.fault_points_seen, s.faults_fired);
            }
            0
        }
        _ => 2,
    }
}
