//! C03 — tables over Z, Q, F2, F3 are mutually consistent (universal coefficients), the two
//! library routes to a bigraded table agree, and over F2 unreduced = reduced (x) unknot.
//!
//! The bigraded table obtained from the total homology sorts homology *generators* by q-degree;
//! the generators depend on the reducer's pivots (schedule, hash order), so agreement is checked
//! on every simulated execution.

use std::collections::BTreeMap;

use serde_json::{json, Value};
use yui::EucRingOps;
use yui_kh::kh::KhHomologyBigraded;
use yui_verif_rt as rt;
use yui_verif_rt::Rng;

use crate::diag::{self, pd_from_json, pd_to_json};
use crate::framework::*;
use crate::khcommon::*;

pub struct C03;

type Tables = BTreeMap<String, Result<Bigraded, String>>;

fn both_routes<R: KhRing>(out: &mut Tables, pd: &crate::diag::Pd, reduced: bool)
where
    for<'x> &'x R: EucRingOps<R>,
{
    let l = link_of(pd);
    let tag = if reduced { "red" } else { "unred" };
    let a = KhHomologyBigraded::<R>::new(&l, &R::zero(), &R::zero(), reduced);
    out.insert(format!("{}/total/{}", R::NAME, tag), bigraded_of(&a));
    out.insert(format!("{}/pieces/{}", R::NAME, tag), bigraded_via_complex::<R>(&l, reduced));
}

fn run_sut(case: &Value) -> Tables {
    let pd = pd_from_json(&case["pd"]);
    let big = case["bigint"].as_bool().unwrap();
    let mut out = Tables::new();
    for reduced in [false, true] {
        if reduced && pd.is_empty() { continue; }
        if big { both_routes::<num_bigint::BigInt>(&mut out, &pd, reduced) } else { both_routes::<i64>(&mut out, &pd, reduced) }
        both_routes::<yui::Ratio<i64>>(&mut out, &pd, reduced);
        both_routes::<yui::FF<2>>(&mut out, &pd, reduced);
        both_routes::<yui::FF<3>>(&mut out, &pd, reduced);
    }
    out
}

fn rank(t: &Bigraded, k: (i32, i32)) -> usize { t.get(&k).map(|x| x.rank).unwrap_or(0) }
fn tors_p(t: &Bigraded, k: (i32, i32), p: u32) -> usize { t.get(&k).map(|x| x.tors_divisible_by(p)).unwrap_or(0) }

fn oracle(case: &Value, tables: &Tables) -> Option<Violation> {
    let zname = if case["bigint"].as_bool().unwrap() { "ZB" } else { "Z" };
    let mut ok: BTreeMap<String, &Bigraded> = BTreeMap::new();
    for (k, v) in tables {
        match v {
            Err(e) => return Some(Violation::new("malformed-homology", format!("{k}: {e}"))),
            Ok(t) => { ok.insert(k.clone(), t); }
        }
    }
    // (a) the two routes agree, ring by ring
    for ring in [zname, "Q", "F2", "F3"] {
        for tag in ["unred", "red"] {
            let (Some(a), Some(b)) = (ok.get(&format!("{ring}/total/{tag}")), ok.get(&format!("{ring}/pieces/{tag}"))) else { continue };
            if a != b {
                return Some(Violation::new("routes-disagree", format!("{ring} {tag}: bigraded table from total homology {} ; homology of bigraded pieces {}", describe_bigraded(a), describe_bigraded(b))));
            }
        }
    }
    for tag in ["unred", "red"] {
        let Some(z) = ok.get(&format!("{zname}/pieces/{tag}")) else { continue };
        let q = ok[&format!("Q/pieces/{tag}")];
        let mut cells: Vec<(i32, i32)> = z.keys().chain(q.keys()).copied().collect();
        for p in [2u32, 3] { cells.extend(ok[&format!("F{p}/pieces/{tag}")].keys().copied()); }
        let more: Vec<(i32, i32)> = cells.iter().map(|&(i, j)| (i - 1, j)).collect();
        cells.extend(more);
        cells.sort();
        cells.dedup();
        for &c in &cells {
            // (b) rank over Q = free rank over Z
            if rank(q, c) != rank(z, c) {
                return Some(Violation::new("rank-Q-vs-Z", format!("{tag} {c:?}: rank over Q {} but free rank over Z {}", rank(q, c), rank(z, c))));
            }
            // (c) universal coefficients for F_p
            for p in [2u32, 3] {
                let f = ok[&format!("F{p}/pieces/{tag}")];
                let want = rank(z, c) + tors_p(z, c, p) + tors_p(z, (c.0 + 1, c.1), p);
                if rank(f, c) != want {
                    return Some(Violation::new("universal-coefficients", format!("{tag} {c:?}: dim over F{p} is {} but free({}) + p-torsion here({}) + p-torsion one degree up({}) = {want}", rank(f, c), rank(z, c), tors_p(z, c, p), tors_p(z, (c.0 + 1, c.1), p))));
                }
            }
        }
    }
    // (d) over F2: unreduced(i,j) = reduced(i,j-1) + reduced(i,j+1)
    if let (Some(u), Some(r)) = (ok.get("F2/pieces/unred"), ok.get("F2/pieces/red")) {
        let mut cells: Vec<(i32, i32)> = u.keys().copied().collect();
        for &(i, j) in r.keys() { cells.push((i, j - 1)); cells.push((i, j + 1)); }
        cells.sort();
        cells.dedup();
        for (i, j) in cells {
            let want = rank(r, (i, j - 1)) + rank(r, (i, j + 1));
            if rank(u, (i, j)) != want {
                return Some(Violation::new("F2-reduced-tensor-unknot", format!("({i},{j}): unreduced dim {} but reduced({i},{}) + reduced({i},{}) = {want}", rank(u, (i, j)), j - 1, j + 1)));
            }
        }
    }
    None
}

impl Check for C03 {
    fn id(&self) -> &'static str { "C03" }
    fn rule(&self) -> String {
        "one run = one diagram (table knots/links up to 10 crossings and mirrors, kinked diagrams, braid closures, split unions, connected sums, ~2% big torus knots/links and their connected sums with 15-24 crossings; random crossing order) for which ONE simulated execution computes the bigraded tables over Z (i64 or BigInt), Q, F2, F3, reduced and unreduced, by both library routes (16 Khovanov computations), under a drawn substrate configuration (workers, pick-up, strategy, schedule seed, hash seeds). Checked per execution: routes agree cell by cell; rank_Q = free rank_Z; dim F_p(i,j) = free + p-torsion(i,j) + p-torsion(i+1,j) for p=2,3; over F2 unreduced(i,j) = red(i,j-1)+red(i,j+1). distinct = distinct event-log digests; non-trivial = the diagram has Z-torsion in some bidegree".into()
    }
    fn assumptions(&self) -> Vec<String> {
        vec![
            "rayon executor semantics modelled by the shim".into(),
            "the 35-crossing example named in the property text is out of reach; torsion other than Z/2 is reached through big torus diagrams drawn in ~2% of the runs: Z/4 in T(4,5) and its connected sums (quick and thorough), Z/3 and Z/5 - including Z/2+Z/5 in one bidegree - in T(5,6) (thorough only, ~4 s per run)".into(),
            "relations are between the library's own answers; the definition-level oracle is C01's".into(),
        ]
    }
    fn required_probes(&self) -> Vec<&'static str> { vec!["diagrams_with_torsion", "diagrams_with_mixed_torsion_orders"] }
    fn max_steps(&self) -> usize { 50_000_000 }
    fn runs(&self, tier: &str) -> u64 { if tier == "quick" { 4_000 } else { 250_000 } }
    fn gen_case(&self, rng: &mut Rng, _idx: u64, tier: &str) -> Value {
        let max_x = if tier == "quick" { 9 } else { 11 };
        // odd torsion appears late: give the torus-knot-like entries extra weight
        let (name, pd) = if rng.chance(1, if tier == "quick" { 60 } else { 40 }) {
            // mixed torsion orders (Z/2 with Z/4, Z/3, Z/5) only exist beyond 14 crossings
            diag::draw_big(rng, tier != "quick")
        } else if rng.chance(1, 8) {
            let n = *rng.pick(&["8_19", "10_124", "10_132", "10_139", "10_145"]);
            let pd = diag::table(n);
            if pd.len() <= max_x + 1 { (n.to_string(), if rng.chance(1, 2) { diag::mirror(&pd) } else { pd }) } else { diag::draw(rng, max_x) }
        } else { diag::draw(rng, max_x) };
        let pd = diag::permute_crossings(rng, &pd);
        json!({ "name": name, "pd": pd_to_json(&pd), "bigint": rng.chance(1, 3) })
    }
    fn run_case(&self, case: &Value, ex: &mut Executor) -> RunReport {
        let mut rep = RunReport::default();
        let c1 = case.clone();
        let res = ex.exec(None, rt::fs::Disk::default(), move || run_sut(&c1));
        match res {
            Err(a) => {
                let v = abort_to_violation(&a);
                if is_machine_overflow(&v) {
                    rep.counters.insert("machine_overflow_skipped".into(), 1);
                    rep.outcome_class = "overflow".into();
                } else {
                    rep.violation = Some(v);
                    rep.outcome_class = "abort".into();
                }
            }
            Ok(tables) => {
                let zname = if case["bigint"].as_bool().unwrap() { "ZB" } else { "Z" };
                if let Some(Ok(z)) = tables.get(&format!("{zname}/pieces/unred")) {
                    let tors = z.values().any(|t| !t.tors.is_empty());
                    let odd = z.values().any(|t| t.tors.iter().any(|(p, _)| *p != 2.into()));
                    rep.nontrivial = tors;
                    rep.counters.insert("diagrams_with_torsion".into(), tors as u64);
                    rep.counters.insert("diagrams_with_odd_torsion".into(), odd as u64);
                    // two different prime powers in one homological degree
                    let mut by_h: BTreeMap<i32, std::collections::BTreeSet<(String, u32)>> = BTreeMap::new();
                    for ((i, _), t) in z.iter() { for (p, e) in &t.tors { by_h.entry(*i).or_default().insert((p.to_string(), *e)); } }
                    rep.counters.insert("diagrams_with_mixed_torsion_orders".into(), by_h.values().any(|s| s.len() >= 2) as u64);
                    rep.outcome_class = format!("{} cells", z.len().min(99));
                    rep.detail = describe_bigraded(z);
                    let mut d = 0u64;
                    for b in rep.detail.bytes() { d = d.wrapping_mul(131).wrapping_add(b as u64); }
                    rep.outcome_digest = d;
                }
                rep.violation = oracle(case, &tables);
            }
        }
        rep
    }
}
