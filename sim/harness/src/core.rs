//! Simulation core: one seeded, exactly repeatable execution of a closure on the simulated
//! substrate, plus the process-wide seams (panic hook, `getrandom`, ahash random source).

use std::any::Any;
use std::cell::RefCell;
use std::panic::{catch_unwind, AssertUnwindSafe};
use std::sync::{Arc, Mutex, Once};

use shuttle::{Config, FailurePersistence, MaxSteps, Runner};
use yui_verif_rt as rt;
use yui_verif_rt::sched::{Mode, Strategy, TraceScheduler};
use yui_verif_rt::{RunCfg, RunStats};

// ---------------------------------------------------------------------------------------------
// process-wide seams
// ---------------------------------------------------------------------------------------------

/// std's `RandomState` (HashMap/HashSet) draws its per-thread keys from libc `getrandom`, which
/// std resolves as a weak symbol; defining it here routes those bytes to the run's hash-seed
/// stream.  Every run executes on a fresh OS thread, so the keys are re-drawn for every run.
#[no_mangle]
pub unsafe extern "C" fn getrandom(buf: *mut u8, len: usize, flags: u32) -> isize {
    let slice = std::slice::from_raw_parts_mut(buf, len);
    if rt::hash_stream_fill(slice) {
        return len as isize;
    }
    extern "C" {
        fn syscall(num: i64, ...) -> i64;
    }
    const SYS_GETRANDOM: i64 = 318; // x86_64
    syscall(SYS_GETRANDOM, buf, len, flags) as isize
}

struct RunHashSource;

impl ahash::random_state::RandomSource for RunHashSource {
    fn gen_hasher_seed(&self) -> usize {
        match rt::hash_stream_u64() {
            Some(v) => v as usize,
            None => {
                // outside a run (harness bookkeeping): any value will do, order is never observed
                static C: std::sync::atomic::AtomicUsize = std::sync::atomic::AtomicUsize::new(0x5eed);
                C.fetch_add(0x9E37_79B9, std::sync::atomic::Ordering::Relaxed)
            }
        }
    }
}

thread_local! {
    static LAST_PANIC: RefCell<Option<String>> = const { RefCell::new(None) };
    /// run index the current driver thread is working on (for the hang watchdog's report)
    static CURRENT_RUN: std::cell::Cell<u64> = const { std::cell::Cell::new(u64::MAX) };
}

/// executions in flight: OS thread id of the simulation thread -> (run index, start)
pub static RUNNING: Mutex<std::collections::BTreeMap<i64, (u64, std::time::Instant)>> = Mutex::new(std::collections::BTreeMap::new());

pub fn set_current_run(idx: u64) {
    CURRENT_RUN.with(|c| c.set(idx));
}

fn gettid() -> i64 {
    extern "C" {
        fn syscall(num: i64, ...) -> i64;
    }
    unsafe { syscall(186) } // SYS_gettid on x86_64
}

/// CPU seconds (user + system) consumed so far by the thread `tid` of this process.  A run that
/// hangs in code without scheduling points burns CPU; a run that is merely slow because the
/// machine is oversubscribed does not, so the hang verdict is taken on CPU time, not wall time.
pub fn thread_cpu_seconds(tid: i64) -> Option<f64> {
    let s = std::fs::read_to_string(format!("/proc/self/task/{tid}/stat")).ok()?;
    let rest = &s[s.rfind(')')? + 2..];
    let f: Vec<&str> = rest.split_whitespace().collect();
    // fields after the command: state(0) ... utime is field 14, stime field 15 of the full line
    let utime: f64 = f.get(11)?.parse().ok()?;
    let stime: f64 = f.get(12)?.parse().ok()?;
    Some((utime + stime) / 100.0)
}

pub fn init_process() {
    static INIT: Once = Once::new();
    INIT.call_once(|| {
        ahash::random_state::set_random_source(RunHashSource).expect("ahash random source already set");
        // shuttle installs its own (noisy) panic hook once, on the first execution: let it do so
        // now, then replace it by ours.
        let (s, _) = TraceScheduler::new(Mode::Generate { rng: rt::Rng::new(0), strategy: Strategy::Uniform }, 0);
        let mut cfg = Config::new();
        cfg.failure_persistence = FailurePersistence::None;
        Runner::new(s, cfg).run(|| {});
        std::panic::set_hook(Box::new(|info| {
            let loc = info.location().map(|l| format!("{}:{}", l.file(), l.line())).unwrap_or_default();
            LAST_PANIC.with(|p| *p.borrow_mut() = Some(loc));
            if std::env::var_os("VERIF_PANIC_TRACE").is_some() {
                eprintln!("[panic] {info}");
            }
        }));
    });
}

pub fn payload_message(e: &(dyn Any + Send)) -> (String, bool) {
    if let Some(p) = e.downcast_ref::<rt::InjectedPanic>() {
        return (p.0.clone(), true);
    }
    if let Some(s) = e.downcast_ref::<&str>() {
        return (s.to_string(), false);
    }
    if let Some(s) = e.downcast_ref::<String>() {
        return (s.clone(), false);
    }
    ("<non-string panic payload>".to_string(), false)
}

// ---------------------------------------------------------------------------------------------
// one execution
// ---------------------------------------------------------------------------------------------

#[derive(Clone, Debug)]
pub enum Sched {
    Generate { seed: u64, strategy: Strategy },
    Replay { decisions: Vec<u32>, strict: bool },
}

#[derive(Clone, Debug)]
pub struct ExecPlan {
    pub cfg: RunCfg,
    pub sched: Sched,
    pub disk: rt::fs::Disk,
    /// scheduling-step budget (liveness: the call must return within this many steps)
    pub max_steps: usize,
    pub stack_size: usize,
}

#[derive(Clone, Debug, PartialEq)]
pub enum Abort {
    /// the body panicked (message, location, injected?)
    Panic { msg: String, loc: String, injected: bool },
    Deadlock(String),
    StepBudget(String),
    /// strict replay could not follow the recorded trace — harness error, never a verdict
    ReplayDiverged(String),
    /// shuttle-internal failure — harness error
    Engine(String),
}

pub struct ExecOutcome<T> {
    pub result: Result<T, Abort>,
    pub stats: RunStats,
    pub trace: Vec<u32>,
    pub choice_points: u64,
}

/// Runs `body` once on the simulated substrate, on a fresh OS thread.
pub fn execute<T, F>(plan: &ExecPlan, body: F) -> ExecOutcome<T>
where
    T: Send + 'static,
    F: FnOnce() -> T + Send + 'static,
{
    init_process();
    let plan = plan.clone();
    let idx = CURRENT_RUN.with(|c| c.get());
    let handle = std::thread::Builder::new()
        .name("sim-run".into())
        .stack_size(4 << 20)
        .spawn(move || {
            let tid = gettid();
            RUNNING.lock().unwrap().insert(tid, (idx, std::time::Instant::now()));
            let r = execute_here(plan, body);
            RUNNING.lock().unwrap().remove(&tid);
            r
        })
        .expect("spawn sim thread");
    handle.join().expect("simulation driver thread must not panic")
}

fn execute_here<T, F>(plan: ExecPlan, body: F) -> ExecOutcome<T>
where
    T: Send + 'static,
    F: FnOnce() -> T + Send + 'static,
{
    rt::begin_run(plan.cfg.clone(), plan.disk.clone());
    let (mode, data_seed) = match &plan.sched {
        Sched::Generate { seed, strategy } => (
            Mode::Generate { rng: rt::Rng::new(rt::mix(*seed, 0x5C4ED)), strategy: strategy.clone() },
            rt::mix(*seed, 0xDA7A),
        ),
        Sched::Replay { decisions, strict } => (Mode::Replay { decisions: decisions.clone(), strict: *strict }, 0),
    };
    let (sched, out) = TraceScheduler::new(mode, data_seed);
    let mut config = Config::new();
    config.stack_size = plan.stack_size;
    config.failure_persistence = FailurePersistence::None;
    config.max_steps = MaxSteps::FailAfter(plan.max_steps);
    config.silence_warnings = true;

    let slot: Arc<Mutex<Option<Result<T, Abort>>>> = Arc::new(Mutex::new(None));
    let slot2 = slot.clone();
    let body = Mutex::new(Some(body));
    LAST_PANIC.with(|p| *p.borrow_mut() = None);

    let run = catch_unwind(AssertUnwindSafe(|| {
        Runner::new(sched, config).run(move || {
            let body = body.lock().unwrap().take().expect("single execution");
            rt::set_in_sim(true);
            let r = catch_unwind(AssertUnwindSafe(body));
            rt::sync::flush_wakeups();
            rayon_shim::shim_shutdown_pool();
            rt::note_steps(shuttle::current::context_switches() as u64);
            rt::set_in_sim(false);
            let r = r.map_err(|e| {
                let (msg, injected) = payload_message(&*e);
                let loc = LAST_PANIC.with(|p| p.borrow().clone()).unwrap_or_default();
                Abort::Panic { msg, loc, injected }
            });
            *slot2.lock().unwrap() = Some(r);
        });
    }));
    rt::set_in_sim(false);
    let stats = rt::end_run().unwrap_or_default();
    let tr = std::mem::take(&mut *out.lock().unwrap());

    let result = match run {
        Ok(()) => slot.lock().unwrap().take().unwrap_or(Err(Abort::Engine("body did not complete".into()))),
        Err(e) => {
            let (msg, _) = payload_message(&*e);
            if let Some(d) = tr.diverged.clone() {
                Err(Abort::ReplayDiverged(d))
            } else if msg.starts_with("deadlock") {
                Err(Abort::Deadlock(msg))
            } else if msg.starts_with("exceeded max_steps") {
                Err(Abort::StepBudget(msg))
            } else {
                // a panic that escaped the body's catch_unwind (e.g. from a detached task)
                match slot.lock().unwrap().take() {
                    Some(Err(a)) => Err(a),
                    _ => Err(Abort::Engine(msg)),
                }
            }
        }
    };
    ExecOutcome { result, stats, trace: tr.decisions, choice_points: tr.choice_points }
}
