//! C19 — the involutive Khovanov complex is the mapping cone of 1 + tau and respects symmetry.
//!
//! The symmetric builder pairs off-axis crossings and keeps a key map for tau while delooping and
//! eliminating in hash-set iteration order; correctness of that pairing for every order (and
//! every schedule of the parallel steps) is what one process per unit test cannot show.

use std::collections::BTreeMap;

use refmodel::kh::Cube;
use refmodel::link::Diagram;
use refmodel::{RefRing, DM};
use serde_json::{json, Value};
use yui::poly::Poly;
use yui::{RingOps, FF2};
use yui_homology::{ChainComplexTrait, GridTrait, SummandTrait};
use yui_kh::khi::internal::v2::builder::SymTngBuilder;
use yui_kh::khi::{ssi_invariants, KhIComplex, KhIHomology};
use yui_link::InvLink;
use yui_verif_rt as rt;
use yui_verif_rt::Rng;

use crate::c05::{check_complex, homology_at, snapshot, CRing, Snapshot};
use crate::diag::{self, pd_from_json, pd_to_json, Pd};
use crate::diagrams::SINV_TABLE;
use crate::framework::*;
use crate::khcommon::{describe_graded, link_of, reference, Graded};

pub struct C19;

fn emap(n: u32) -> impl Fn(u32) -> u32 {
    move |e| (n + 1 - e) % n + 1
}

fn inv_link(pd: &Pd) -> InvLink {
    let l = link_of(pd);
    let n = Diagram::from_pd(pd).edges().len();
    InvLink::new(l, move |e| (n + 1 - e) % n + 1, Some(1))
}

struct Out {
    khi: Snapshot<refmodel::Fp<2>>,
    kh: Snapshot<refmodel::Fp<2>>,
    /// ranks reported by the library's own involutive homology (numeric F2 only)
    khi_ranks: Option<BTreeMap<i32, usize>>,
    ssi: Option<(i32, i32)>,
}

fn snapshot_khi<R: CRing>(c: &KhIComplex<R>) -> Snapshot<R::B>
where
    for<'x> &'x R: RingOps<R>,
{
    let inner = c.inner();
    let mut degrees: Vec<i32> = inner.support().map(|i| i as i32).collect();
    degrees.sort();
    let qdegs = degrees.iter().map(|&i| vec![0; inner.rank(i as isize)]).collect();
    let d = degrees.iter().map(|&i| {
        let m = inner.d_matrix(i as isize);
        use yui_matrix::MatTrait;
        let (r, cc) = m.shape();
        DM::from_entries(r, cc, m.iter().map(|(a, b, v)| (a, b, v.to_ref())))
    }).collect();
    Snapshot { degrees, qdegs, d, canon: vec![] }
}

fn run_sut(case: &Value) -> Out {
    let pd = pd_from_json(&case["pd"]);
    let l = if case["mirror_api"].as_bool().unwrap_or(false) { inv_link(&pd).mirror() } else { inv_link(&pd) };
    let (h, t) = (case["h"].as_i64().unwrap(), case["t"].as_i64().unwrap());
    let reduced = case["reduced"].as_bool().unwrap();
    if case["ring"] == "FF2" {
        let (hh, tt) = (FF2::from(h), FF2::from(t));
        let c = KhIComplex::<FF2>::new(&l, &hh, &tt, reduced);
        let k = SymTngBuilder::<FF2>::build_kh_complex(&l, &hh, &tt, reduced);
        let hm = KhIHomology::<FF2>::new(&l, &hh, &tt, reduced);
        let ranks = hm.inner().support().filter(|&i| hm.inner()[i].rank() > 0).map(|i| (i as i32, hm.inner()[i].rank())).collect();
        Out { khi: snapshot_khi(&c), kh: snapshot(&k), khi_ranks: Some(ranks), ssi: None }
    } else {
        type P = Poly<'H', FF2>;
        let (hh, tt) = (P::variable(), P::from_const(FF2::from(0)));
        let c = KhIComplex::<P>::new(&l, &hh, &tt, reduced);
        let k = SymTngBuilder::<P>::build_kh_complex(&l, &hh, &tt, reduced);
        let ssi = ssi_invariants(&l, &hh, reduced);
        Out { khi: snapshot_khi(&c), kh: snapshot(&k), khi_ranks: None, ssi: Some(ssi) }
    }
}

fn cone_reference(pd: &Pd, h: i64, t: i64, reduced: bool) -> Result<BTreeMap<i32, usize>, String> {
    let mut key = pd.clone();
    key.sort();
    let dg = Diagram::from_pd(&key);
    let n = dg.edges().len() as u32;
    let cube = Cube::new(&dg, h, t, reduced, if reduced { Some(1) } else { None }).map_err(|e| format!("{e:?}"))?;
    let tau = cube.involution(&dg, &emap(n))?;
    Ok(cube.cone_homology_mod2(&tau))
}

fn dims(g: &Graded) -> BTreeMap<i32, usize> {
    g.iter().map(|(i, t)| (*i, t.rank)).collect()
}

fn oracle(case: &Value, out: &Out) -> Option<Violation> {
    let pd = pd_from_json(&case["pd"]);
    // the reference always works on an explicit PD code of the diagram that was computed on
    let pd = if case["mirror_api"].as_bool().unwrap_or(false) { diag::mirror(&pd) } else { pd };
    let (h, t) = (case["h"].as_i64().unwrap(), case["t"].as_i64().unwrap());
    let reduced = case["reduced"].as_bool().unwrap();
    let formal = case["ring"] != "FF2";
    if let Some(v) = check_complex(&out.khi, (false, false), 1, 1) {
        return Some(Violation::new(&format!("khi-{}", v.class), v.message));
    }
    if let Some(v) = check_complex(&out.kh, (formal, false), h, t) {
        return Some(Violation::new(&format!("sym-kh-{}", v.class), v.message));
    }
    let points: Vec<(i64, i64)> = if formal { vec![(0, 0), (1, 0)] } else { vec![(h, t)] };
    for (h0, t0) in points {
        // (1) the involutive complex has the homology of Cone(1 + tau) on the cube of resolutions
        let want = match cone_reference(&pd, h0, t0, reduced) {
            Ok(w) => w,
            Err(e) => return Some(Violation::new("harness:reference", e)),
        };
        let got = dims(&homology_at(&out.khi, h0, t0));
        if got != want {
            return Some(Violation::new("khi-differs-from-cone", format!("(h,t)=({h0},{t0}), reduced={reduced}: library complex {got:?} ; Cone(1+tau) on the cube {want:?}")));
        }
        // (2) the symmetric construction without the involutive part is ordinary Khovanov homology
        let r = reference(&pd, h0, t0, reduced, Some(2));
        let got = homology_at(&out.kh, h0, t0);
        if got != r.graded {
            return Some(Violation::new("sym-kh-differs-from-cube", format!("(h,t)=({h0},{t0}): symmetric builder {} ; cube of resolutions {}", describe_graded(&got), describe_graded(&r.graded))));
        }
        if let (Some(ranks), false) = (&out.khi_ranks, formal) {
            if *ranks != want {
                return Some(Violation::new("khi-homology-differs-from-cone", format!("(h,t)=({h0},{t0}): library homology ranks {ranks:?} ; Cone(1+tau) {want:?}")));
            }
        }
    }
    if let Some((s0, s1)) = out.ssi {
        if s0 > s1 { return Some(Violation::new("ssi-order", format!("s0 = {s0} > s1 = {s1}"))); }
        if (s1 - s0) % 2 != 0 { return Some(Violation::new("ssi-parity", format!("s0 = {s0}, s1 = {s1} differ in parity"))); }
    }
    None
}

impl Check for C19 {
    fn id(&self) -> &'static str { "C19" }
    fn rule(&self) -> String {
        "one run = one of the 23 built-in strongly invertible diagrams (3..9 crossings) or 9_46 with its standard inversion (the one with s0 != s1) or its mirror, crossing list randomly reordered, ring F2 with (h,t) in {(0,0),(1,0),(0,1),(1,1)} or F2[H] with h=H, reduced/unreduced, under a drawn substrate configuration (workers, pick-up, strategy, schedule seed, hash seeds). Per execution: own d∘d=0 on KhIComplex; its homology (at H=0,1 for F2[H]) equals that of the reference Cone(1+tau: C -> C) on the cube-of-resolutions complex with tau induced by e -> (n+1-e) mod n + 1; SymTngBuilder::build_kh_complex has the homology of the cube complex; ssi: s0<=s1, s0=s1 mod 2. Cross-run: ssi constant per (knot, reduced), mirror gives (-s1,-s0). distinct = distinct event-log digests; non-trivial = every run (all exercise the hash-ordered symmetric builder)".into()
    }
    fn assumptions(&self) -> Vec<String> {
        vec![
            "rayon executor semantics modelled by the shim".into(),
            "tau on the reference side: crossings go to the crossing with the image edge set keeping the smoothing type, circles to their image edge sets, labels along (derived from the pi-rotation about an in-plane axis)".into(),
            "over F2[H] homology is compared after specialising H to 0 and 1".into(),
            "user-supplied involutive codes beyond the built-in table are not sampled".into(),
        ]
    }
    fn required_probes(&self) -> Vec<&'static str> { vec!["ring:FF2", "ring:FF2[H]", "mirrored"] }
    fn max_steps(&self) -> usize { 50_000_000 }
    fn runs(&self, tier: &str) -> u64 { if tier == "quick" { 4_000 } else { 250_000 } }
    fn gen_case(&self, rng: &mut Rng, _idx: u64, tier: &str) -> Value {
        let max_x = if tier == "quick" { 8 } else { 9 };
        let cands: Vec<&(&str, &[[u32; 4]])> = SINV_TABLE.iter().filter(|(_, pd)| pd.len() <= max_x).collect();
        let (name, pd) = **rng.pick(&cands);
        // one run in 16 takes 9_46 whatever the size bound: the other diagrams have s0 = s1
        let (name, pd) = if rng.chance(1, 16) { SINV_TABLE[0] } else { (name, pd) };
        let mut pd = pd.to_vec();
        let mirror = rng.chance(1, 2);
        // half of the mirrored runs go through `InvLink::mirror()`, half through an own mirrored code
        let mirror_api = mirror && rng.chance(1, 2);
        if mirror && !mirror_api { pd = diag::mirror(&pd); }
        let pd = diag::permute_crossings(rng, &pd);
        let formal = rng.chance(1, 2);
        let (h, t) = if formal { (0, 0) } else { *rng.pick(&[(0, 0), (1, 0), (0, 1), (1, 1)]) };
        let reduced = t == 0 && rng.chance(1, 2);
        json!({ "name": name, "mirror": mirror, "mirror_api": mirror_api, "pd": pd_to_json(&pd), "ring": if formal { "FF2[H]" } else { "FF2" }, "h": h, "t": t, "reduced": reduced })
    }
    fn run_case(&self, case: &Value, ex: &mut Executor) -> RunReport {
        let mut rep = RunReport::default();
        let c1 = case.clone();
        let res = ex.exec(None, rt::fs::Disk::default(), move || run_sut(&c1));
        rep.nontrivial = true;
        rep.counters.insert(format!("ring:{}", case["ring"].as_str().unwrap()), 1);
        if case["mirror"] == true { rep.counters.insert("mirrored".into(), 1); }
        match res {
            Err(a) => {
                rep.violation = Some(abort_to_violation(&a));
                rep.outcome_class = "abort".into();
            }
            Ok(out) => {
                rep.outcome_class = format!("{} cone generators", out.khi.qdegs.iter().map(|q| q.len()).sum::<usize>().min(200));
                rep.detail = out.ssi.map(|(a, b)| format!("{a},{b}")).unwrap_or_default();
                rep.outcome_digest = rt::mix(out.khi.d.iter().map(|m| m.nnz() as u64).sum(), out.ssi.map(|(a, b)| (a * 1000 + b) as u64).unwrap_or(0));
                rep.violation = oracle(case, &out);
            }
        }
        rep
    }
    fn has_cross_check(&self) -> bool { true }
    fn cross_check(&self, runs: &[(u64, Value, RunReport)]) -> Vec<(u64, Violation)> {
        let mut seen: BTreeMap<(String, bool), (u64, (i32, i32))> = BTreeMap::new();
        let mut out = vec![];
        for (idx, case, rep) in runs {
            if rep.detail.is_empty() || rep.violation.is_some() { continue; }
            let (a, b) = rep.detail.split_once(',').unwrap();
            let (mut s0, mut s1): (i32, i32) = (a.parse().unwrap(), b.parse().unwrap());
            if case["mirror"] == true { (s0, s1) = (-s1, -s0); }
            let key = (case["name"].as_str().unwrap().to_string(), case["reduced"].as_bool().unwrap());
            match seen.get(&key) {
                None => { seen.insert(key, (*idx, (s0, s1))); }
                Some((i0, v0)) => if *v0 != (s0, s1) {
                    out.push((*idx, Violation::new("ssi-not-an-invariant", format!("{} reduced={}: run {idx} gives {:?} (after mirror normalisation) but run {i0} gave {:?}", key.0, key.1, (s0, s1), v0))));
                }
            }
        }
        out
    }
}
