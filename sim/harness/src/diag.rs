//! Diagram workload: table diagrams and transformations that keep a PD code valid.
//! Everything here works on plain PD codes through the *reference* link model; yui only ever
//! sees the resulting PD code through `Link::from_pd_code`.

use refmodel::link::{Diagram, Edge};
use serde_json::{json, Value};
use yui_verif_rt::Rng;

use crate::diagrams::TABLE;

pub type Pd = Vec<[Edge; 4]>;

pub fn pd_to_json(pd: &Pd) -> Value {
    json!(pd.iter().map(|x| x.to_vec()).collect::<Vec<_>>())
}

pub fn pd_from_json(v: &Value) -> Pd {
    v.as_array().unwrap().iter().map(|x| {
        let a = x.as_array().unwrap();
        [a[0].as_u64().unwrap() as Edge, a[1].as_u64().unwrap() as Edge, a[2].as_u64().unwrap() as Edge, a[3].as_u64().unwrap() as Edge]
    }).collect()
}

pub fn table(name: &str) -> Pd {
    TABLE.iter().find(|(n, _)| *n == name).map(|(_, pd)| pd.to_vec()).unwrap_or_else(|| panic!("no diagram {name}"))
}

pub fn mirror(pd: &Pd) -> Pd {
    Diagram::from_pd(pd).mirror().pd()
}

pub fn permute_crossings(rng: &mut Rng, pd: &Pd) -> Pd {
    let mut p = pd.clone();
    rng.shuffle(&mut p);
    p
}

/// insert a Reidemeister-I kink on edge `e`
pub fn add_kink(pd: &Pd, e: Edge, kind: u32) -> Pd {
    let dg = Diagram::from_pd(pd);
    let o = dg.orientation().expect("valid");
    let m = *dg.edges().iter().max().unwrap();
    let (e2, e3) = (m + 1, m + 2);
    let mut out = pd.clone();
    let (ci, slot) = o.head[&e];
    out[ci][slot] = e3;
    out.push(match kind % 4 {
        0 => [e, e2, e2, e3],
        1 => [e2, e, e3, e2],
        2 => [e, e3, e2, e2],   // under e -> e2, over e2 (slot3) -> e3 (slot1)
        _ => [e2, e3, e, e2],   // hmm: under e2 -> e, invalid for direction; replaced below
    });
    if kind % 4 == 3 {
        // over first, other handedness: e enters at slot 3, leaves at slot 1 as e2, which comes back under
        let last = out.len() - 1;
        out[last] = [e2, e2, e3, e];
    }
    out
}

pub fn split_union(a: &Pd, b: &Pd) -> Pd {
    let off = a.iter().flat_map(|x| x.iter()).max().copied().unwrap_or(0);
    let mut out = a.clone();
    out.extend(b.iter().map(|x| [x[0] + off, x[1] + off, x[2] + off, x[3] + off]));
    out
}

/// closure of a braid word (letters +-i, 1 <= i < strands); None if some strand is never touched
pub fn braid_closure(strands: usize, word: &[i32]) -> Option<Pd> {
    let mut cur: Vec<Edge> = (1..=strands as Edge).collect();
    let init = cur.clone();
    let mut touched = vec![false; strands];
    let mut next = strands as Edge + 1;
    let mut pd: Pd = vec![];
    for &w in word {
        let i = w.unsigned_abs() as usize - 1;
        let (a, b) = (cur[i], cur[i + 1]);
        let (c, d) = (next, next + 1);
        next += 2;
        // strands run upward; a: bottom-left, b: bottom-right, c: top-left, d: top-right
        pd.push(if w > 0 { [b, d, c, a] } else { [a, b, d, c] });
        cur[i] = c;
        cur[i + 1] = d;
        touched[i] = true;
        touched[i + 1] = true;
    }
    if !touched.iter().all(|&t| t) {
        return None;
    }
    // close up: the last label at every position is the first label at that position
    for x in pd.iter_mut() {
        for e in x.iter_mut() {
            if let Some(p) = cur.iter().position(|c| c == e) {
                *e = init[p];
            }
        }
    }
    Some(pd)
}

/// torus link T(p,q) as the closure of (s_1 ... s_{p-1})^q; `sign` = +1 / -1 mirrors it
pub fn torus(p: usize, q: usize, sign: i32) -> Pd {
    let mut word = vec![];
    for _ in 0..q {
        for i in 1..p {
            word.push(sign * i as i32);
        }
    }
    braid_closure(p, &word).expect("every strand of a torus braid is touched")
}

/// connected sum of two knot diagrams: cut edge `ea` of a and edge `eb` of b (both oriented by the
/// reference model) and reconnect crosswise
pub fn connected_sum(a: &Pd, b: &Pd) -> Pd {
    let off = a.iter().flat_map(|x| x.iter()).max().copied().unwrap_or(0);
    let b: Pd = b.iter().map(|x| [x[0] + off, x[1] + off, x[2] + off, x[3] + off]).collect();
    let (da, db) = (Diagram::from_pd(a), Diagram::from_pd(&b));
    let (oa, ob) = (da.orientation().expect("valid"), db.orientation().expect("valid"));
    let (ea, eb) = (da.edges()[0], db.edges()[0]);
    // a: ... -> [tail] ea [head] -> ... ; b likewise.  New: the head end of ea gets label eb's ... i.e.
    // swap the head ends: ea now runs from a's tail into b's head slot, eb from b's tail into a's head slot
    let (ha, hb) = (oa.head[&ea], ob.head[&eb]);
    let mut out = a.clone();
    let na = out.len();
    out.extend(b);
    out[ha.0][ha.1] = eb;
    out[na + hb.0][hb.1] = ea;
    out
}

pub fn crossing_count(pd: &Pd) -> usize {
    pd.len()
}

pub fn is_valid(pd: &Pd) -> bool {
    Diagram::from_pd(pd).orientation().is_ok()
}

/// draw a diagram with at most `max_x` crossings; returns (description, pd)
pub fn draw(rng: &mut Rng, max_x: usize) -> (String, Pd) {
    for _ in 0..100 {
        let (name, pd) = draw_once(rng);
        if pd.len() <= max_x && is_valid(&pd) {
            return (name, pd);
        }
    }
    ("3_1".into(), table("3_1"))
}

fn draw_once(rng: &mut Rng) -> (String, Pd) {
    match rng.below(20) {
        0 => ("empty".into(), vec![]),
        1 => {
            // unknot diagrams: a kink with more kinks on it
            let mut pd: Pd = vec![*rng.pick(&[[1, 2, 2, 1], [1, 1, 2, 2], [2, 2, 1, 1], [2, 1, 1, 2]])];
            let mut name = "unknot-kink".to_string();
            for _ in 0..rng.below(4) {
                let es = Diagram::from_pd(&pd).edges();
                pd = add_kink(&pd, *rng.pick(&es), rng.below(4) as u32);
                name += "+k";
            }
            (name, pd)
        }
        2..=4 => {
            // braid closure
            let s = 2 + rng.below(3) as usize;
            let len = 1 + rng.below(7) as usize;
            let word: Vec<i32> = (0..len).map(|_| (1 + rng.below(s as u64 - 1) as i32) * if rng.chance(1, 2) { 1 } else { -1 }).collect();
            match braid_closure(s, &word) {
                Some(pd) => (format!("braid{s}{word:?}"), pd),
                None => ("3_1".into(), table("3_1")),
            }
        }
        6 => {
            // connected sum of two small diagrams (checked against the cube reference like any other)
            let a = *rng.pick(&["3_1", "4_1", "5_2", "L2a1"]);
            let b = *rng.pick(&["3_1", "4_1", "L2a1"]);
            let (pa, pb) = (table(a), table(b));
            let pa = if rng.chance(1, 2) { mirror(&pa) } else { pa };
            (format!("{a}#{b}"), connected_sum(&pa, &pb))
        }
        5 => {
            // split union of two small diagrams
            let a = *rng.pick(&["3_1", "L2a1", "4_1"]);
            let b = *rng.pick(&["3_1", "L2a1"]);
            (format!("{a}u{b}"), split_union(&table(a), &table(b)))
        }
        _ => {
            let (name, pd) = *rng.pick(TABLE);
            let mut pd = pd.to_vec();
            let mut name = name.to_string();
            if rng.chance(1, 2) {
                pd = mirror(&pd);
                name += "m";
            }
            if rng.chance(1, 6) {
                let es = Diagram::from_pd(&pd).edges();
                pd = add_kink(&pd, *rng.pick(&es), rng.below(4) as u32);
                name += "+k";
            }
            (name, pd)
        }
    }
}

/// Heavily kinked knot diagrams: a small knot diagram with 28-39 Reidemeister-1 kinks of random
/// sign and side (33-41 crossings in total, beyond one machine word of 32 resolution bits).  The
/// homology is that of the kink-free diagram, which is returned as well.
pub fn draw_kinked(rng: &mut Rng) -> (String, Pd, Pd) {
    let (name, base): (String, Pd) = match rng.below(5) {
        0 => ("unknot".into(), vec![*rng.pick(&[[1, 2, 2, 1], [1, 1, 2, 2], [2, 2, 1, 1], [2, 1, 1, 2]])]),
        1 => ("3_1".into(), table("3_1")),
        2 => ("3_1m".into(), mirror(&table("3_1"))),
        3 => ("4_1".into(), table("4_1")),
        _ => ("5_2".into(), table("5_2")),
    };
    let k = 33 - base.len().min(5) + rng.below(8) as usize;
    let mut pd = base.clone();
    // mostly one sign: whole runs of resolution bits beyond the 32nd are then 0 or 1
    let bias = rng.below(3);
    // the kinks sit one after the other along the strands of the base diagram, never on the loop of
    // another kink: the cost of the library on such diagrams grows linearly with the number of
    // kinks (nested curls can take it minutes and tens of gigabytes, which is a cost, not a defect)
    let es = Diagram::from_pd(&base).edges();
    for _ in 0..k {
        let kind = match bias { 0 => rng.below(4) as u32, 1 => *rng.pick(&[0u32, 1, 0, 1, 2]), _ => *rng.pick(&[2u32, 3, 2, 3, 0]) };
        pd = add_kink(&pd, *rng.pick(&es), kind);
    }
    (format!("{name}+{k}k"), pd, base)
}

/// Big diagrams (15-30 crossings): far beyond the cube reference, used with route-agreement,
/// universal-coefficient and cross-run oracles.  They are where torsion other than Z/2 lives
/// (Z/4 in T(4,5), Z/3 and Z/5 in T(5,6)) and where size-gated code paths are reached.
pub fn draw_big(rng: &mut Rng, thorough: bool) -> (String, Pd) {
    let hopf = table("L2a1");
    let mut menu: Vec<(String, Pd)> = vec![
        ("T(4,5)".into(), torus(4, 5, 1)),
        ("T(3,7)".into(), torus(3, 7, 1)),
        ("T(3,8)".into(), torus(3, 8, 1)),
        ("T(4,5)#L2a1".into(), connected_sum(&torus(4, 5, 1), &hopf)),
        ("T(4,5)#3_1".into(), connected_sum(&torus(4, 5, 1), &table("3_1"))),
        ("T(4,5)#T(2,5)".into(), connected_sum(&torus(4, 5, 1), &torus(2, 5, 1))),
        ("T(4,4)".into(), torus(4, 4, 1)),
        // thick non-torus closures: wide layers (>= 64 vertex pairs per gluing step, hundreds of
        // vertices at elimination time) at 12 crossings
        ("b4(1,-2,3)^4".into(), braid_closure(4, &[1, -2, 3, 1, -2, 3, 1, -2, 3, 1, -2, 3]).expect("valid")),
        ("b3(1,-2)^6".into(), braid_closure(3, &[1, -2, 1, -2, 1, -2, 1, -2, 1, -2, 1, -2]).expect("valid")),
    ];
    if thorough {
        menu.push(("T(5,6)".into(), torus(5, 6, 1)));
        menu.push(("T(4,7)".into(), torus(4, 7, 1)));
    }
    let (name, pd) = menu.swap_remove(rng.below(menu.len() as u64) as usize);
    if rng.chance(1, 3) { (name + "m", mirror(&pd)) } else { (name, pd) }
}

/// the largest diagrams (thorough tier of C01 only): enough edges per gluing step for batched
/// insertion paths
pub fn draw_giant(rng: &mut Rng) -> (String, Pd) {
    if rng.chance(1, 2) { ("T(6,6)".into(), torus(6, 6, 1)) } else { ("T(5,7)".into(), torus(5, 7, 1)) }
}
