//! Diagram workload: table diagrams and transformations that keep a PD code valid.
//! Everything here works on plain PD codes through the *reference* link model; yui only ever
//! sees the resulting PD code through `Link::from_pd_code`.

use refmodel::link::{Diagram, Edge};
use serde_json::{json, Value};
use yui_verif_rt::Rng;

use crate::diagrams::TABLE;

pub type Pd = Vec<[Edge; 4]>;

pub fn pd_to_json(pd: &Pd) -> Value {
    json!(pd.iter().map(|x| x.to_vec()).collect::<Vec<_>>())
}

pub fn pd_from_json(v: &Value) -> Pd {
    v.as_array().unwrap().iter().map(|x| {
        let a = x.as_array().unwrap();
        [a[0].as_u64().unwrap() as Edge, a[1].as_u64().unwrap() as Edge, a[2].as_u64().unwrap() as Edge, a[3].as_u64().unwrap() as Edge]
    }).collect()
}

pub fn table(name: &str) -> Pd {
    TABLE.iter().find(|(n, _)| *n == name).map(|(_, pd)| pd.to_vec()).unwrap_or_else(|| panic!("no diagram {name}"))
}

pub fn mirror(pd: &Pd) -> Pd {
    Diagram::from_pd(pd).mirror().pd()
}

pub fn permute_crossings(rng: &mut Rng, pd: &Pd) -> Pd {
    let mut p = pd.clone();
    rng.shuffle(&mut p);
    p
}

/// insert a Reidemeister-I kink on edge `e`
pub fn add_kink(pd: &Pd, e: Edge, kind: u32) -> Pd {
    let dg = Diagram::from_pd(pd);
    let o = dg.orientation().expect("valid");
    let m = *dg.edges().iter().max().unwrap();
    let (e2, e3) = (m + 1, m + 2);
    let mut out = pd.clone();
    let (ci, slot) = o.head[&e];
    out[ci][slot] = e3;
    out.push(match kind % 4 {
        0 => [e, e2, e2, e3],
        1 => [e2, e, e3, e2],
        2 => [e, e3, e2, e2],   // under e -> e2, over e2 (slot3) -> e3 (slot1)
        _ => [e2, e3, e, e2],   // hmm: under e2 -> e, invalid for direction; replaced below
    });
    if kind % 4 == 3 {
        // over first, other handedness: e enters at slot 3, leaves at slot 1 as e2, which comes back under
        let last = out.len() - 1;
        out[last] = [e2, e2, e3, e];
    }
    out
}

pub fn split_union(a: &Pd, b: &Pd) -> Pd {
    let off = a.iter().flat_map(|x| x.iter()).max().copied().unwrap_or(0);
    let mut out = a.clone();
    out.extend(b.iter().map(|x| [x[0] + off, x[1] + off, x[2] + off, x[3] + off]));
    out
}

/// closure of a braid word (letters +-i, 1 <= i < strands); None if some strand is never touched
pub fn braid_closure(strands: usize, word: &[i32]) -> Option<Pd> {
    let mut cur: Vec<Edge> = (1..=strands as Edge).collect();
    let init = cur.clone();
    let mut touched = vec![false; strands];
    let mut next = strands as Edge + 1;
    let mut pd: Pd = vec![];
    for &w in word {
        let i = w.unsigned_abs() as usize - 1;
        let (a, b) = (cur[i], cur[i + 1]);
        let (c, d) = (next, next + 1);
        next += 2;
        // strands run upward; a: bottom-left, b: bottom-right, c: top-left, d: top-right
        pd.push(if w > 0 { [b, d, c, a] } else { [a, b, d, c] });
        cur[i] = c;
        cur[i + 1] = d;
        touched[i] = true;
        touched[i + 1] = true;
    }
    if !touched.iter().all(|&t| t) {
        return None;
    }
    // close up: the last label at every position is the first label at that position
    for x in pd.iter_mut() {
        for e in x.iter_mut() {
            if let Some(p) = cur.iter().position(|c| c == e) {
                *e = init[p];
            }
        }
    }
    Some(pd)
}

pub fn crossing_count(pd: &Pd) -> usize {
    pd.len()
}

pub fn is_valid(pd: &Pd) -> bool {
    Diagram::from_pd(pd).orientation().is_ok()
}

/// draw a diagram with at most `max_x` crossings; returns (description, pd)
pub fn draw(rng: &mut Rng, max_x: usize) -> (String, Pd) {
    for _ in 0..100 {
        let (name, pd) = draw_once(rng);
        if pd.len() <= max_x && is_valid(&pd) {
            return (name, pd);
        }
    }
    ("3_1".into(), table("3_1"))
}

fn draw_once(rng: &mut Rng) -> (String, Pd) {
    match rng.below(20) {
        0 => ("empty".into(), vec![]),
        1 => {
            // unknot diagrams: a kink with more kinks on it
            let mut pd: Pd = vec![*rng.pick(&[[1, 2, 2, 1], [1, 1, 2, 2], [2, 2, 1, 1], [2, 1, 1, 2]])];
            let mut name = "unknot-kink".to_string();
            for _ in 0..rng.below(4) {
                let es = Diagram::from_pd(&pd).edges();
                pd = add_kink(&pd, *rng.pick(&es), rng.below(4) as u32);
                name += "+k";
            }
            (name, pd)
        }
        2..=4 => {
            // braid closure
            let s = 2 + rng.below(3) as usize;
            let len = 1 + rng.below(7) as usize;
            let word: Vec<i32> = (0..len).map(|_| (1 + rng.below(s as u64 - 1) as i32) * if rng.chance(1, 2) { 1 } else { -1 }).collect();
            match braid_closure(s, &word) {
                Some(pd) => (format!("braid{s}{word:?}"), pd),
                None => ("3_1".into(), table("3_1")),
            }
        }
        5 => {
            // split union of two small diagrams
            let a = *rng.pick(&["3_1", "L2a1", "4_1"]);
            let b = *rng.pick(&["3_1", "L2a1"]);
            (format!("{a}u{b}"), split_union(&table(a), &table(b)))
        }
        _ => {
            let (name, pd) = *rng.pick(TABLE);
            let mut pd = pd.to_vec();
            let mut name = name.to_string();
            if rng.chance(1, 2) {
                pd = mirror(&pd);
                name += "m";
            }
            if rng.chance(1, 6) {
                let es = Diagram::from_pd(&pd).edges();
                pd = add_kink(&pd, *rng.pick(&es), rng.below(4) as u32);
                name += "+k";
            }
            (name, pd)
        }
    }
}
