//! C11 — parallel pivot search returns an acyclic (triangular) pivot set, for every schedule.

use std::collections::BTreeMap;

use refmodel::{RefRing, DM};
use serde_json::{json, Value};
use yui::RingOps;
use yui_matrix::sparse::pivot::{find_pivots, perms_by_pivots, PivotCondition, PivotType};
use yui_verif_rt as rt;
use yui_verif_rt::Rng;

use crate::framework::*;
use crate::matgen;
use crate::rings::*;

pub struct C11;

pub fn cond_from_json(case: &Value) -> PivotCondition {
    match case["cond"].as_str().unwrap() {
        "One" => PivotCondition::One,
        "AnyUnit" => PivotCondition::AnyUnit,
        _ => PivotCondition::Weight(case["w"].as_f64().unwrap()),
    }
}

pub fn ptype_from_json(case: &Value) -> PivotType {
    if case["ptype"].as_str().unwrap() == "Rows" { PivotType::Rows } else { PivotType::Cols }
}

/// The oracle for a returned pivot list, written against the property statement only.
pub fn check_pivots<R: SimRing>(a: &DM<R::Ref>, case: &Value, pivs: &[(usize, usize)]) -> Option<Violation>
where
    for<'x> &'x R: RingOps<R>,
{
    let rows_type = case["ptype"].as_str().unwrap() == "Rows";
    let mut seen_r = vec![false; a.rows];
    let mut seen_c = vec![false; a.cols];
    for &(i, j) in pivs {
        if i >= a.rows || j >= a.cols {
            return Some(Violation::new("pivot-out-of-range", format!("pivot ({i},{j}) in {}x{} matrix", a.rows, a.cols)));
        }
        if std::mem::replace(&mut seen_r[i], true) {
            return Some(Violation::new("duplicate-row", format!("row {i} used twice in {pivs:?}")));
        }
        if std::mem::replace(&mut seen_c[j], true) {
            return Some(Violation::new("duplicate-col", format!("col {j} used twice in {pivs:?}")));
        }
        let e = a.get(i, j);
        let ok = match case["cond"].as_str().unwrap() {
            "One" => e.is_pm_one(),
            "AnyUnit" => e.is_unit(),
            _ => e.is_unit() && R::ref_weight(e) <= case["w"].as_f64().unwrap(),
        };
        if !ok {
            return Some(Violation::new("cond-violated", format!("pivot ({i},{j}) = {e:?} does not satisfy {}", case["cond"])));
        }
    }
    // B[k][l] = a[row_k][col_l] must be upper (Rows) / lower (Cols) triangular
    for (k, &(rk, _)) in pivs.iter().enumerate() {
        for (l, &(_, cl)) in pivs.iter().enumerate() {
            let below = k > l;
            let above = k < l;
            if ((rows_type && below) || (!rows_type && above)) && !a.get(rk, cl).is_zero() {
                return Some(Violation::new(
                    "not-triangular",
                    format!("entry (row of pivot {k}, col of pivot {l}) = a[{rk}][{cl}] is non-zero; pivots {pivs:?}"),
                ));
            }
        }
    }
    None
}

/// History oracle: at the moment of each commit, the committed (row, col) — in the finder's own
/// orientation — must not close a cycle with the pivots committed before it.  Pinpoints the
/// first bad commit.  `a_or` is the matrix in finder orientation (transposed for Cols).
fn check_commit_history<Rr: RefRing>(a_or: &DM<Rr>, events: &[rt::Event]) -> Option<Violation> {
    // pivot graph: pivot col j -> other pivot cols in its row
    let mut row_of: BTreeMap<usize, usize> = BTreeMap::new();
    for e in events.iter().filter(|e| e.site.starts_with("pivot.commit")) {
        let (i, j) = (e.a as usize, e.b as usize);
        if row_of.contains_key(&j) {
            return Some(Violation::new("history-duplicate-col", format!("commit ({i},{j}) by task {} at step {}: column already taken", e.task, e.step)));
        }
        if row_of.values().any(|&r| r == i) {
            return Some(Violation::new("history-duplicate-row", format!("commit ({i},{j}) by task {} at step {}: row already taken", e.task, e.step)));
        }
        row_of.insert(j, i);
        // is j reachable from j through rows of committed pivots?
        let mut stack: Vec<usize> = (0..a_or.cols).filter(|&c| c != j && !a_or.get(i, c).is_zero() && row_of.contains_key(&c)).collect();
        let mut seen = vec![false; a_or.cols];
        while let Some(c) = stack.pop() {
            if c == j {
                return Some(Violation::new(
                    "history-cycle",
                    format!("commit ({i},{j}) by task {} at step {} closes a dependency cycle among committed pivots {:?}", e.task, e.step, row_of),
                ));
            }
            if std::mem::replace(&mut seen[c], true) {
                continue;
            }
            let r = row_of[&c];
            for c2 in 0..a_or.cols {
                if c2 != c && !a_or.get(r, c2).is_zero() && row_of.contains_key(&c2) {
                    stack.push(c2);
                }
            }
        }
    }
    None
}

fn run_typed<R: SimRing>(case: &Value, ex: &mut Executor) -> RunReport
where
    for<'x> &'x R: RingOps<R>,
{
    let a = spmat_from_json::<R>(&case["a"]);
    let dm = dm_from_json::<R>(&case["a"]);
    let (pt, pc) = (ptype_from_json(case), cond_from_json(case));
    let a2 = a.clone();
    let res = ex.exec(None, rt::fs::Disk::default(), move || {
        let pivs = find_pivots(&a2, pt, pc);
        // the statement's own formulation: permute and look at the leading block
        let (p, q) = perms_by_pivots(&a2, &pivs);
        let b = a2.permute(p.view(), q.view());
        (pivs, b)
    });
    let mut rep = RunReport::default();
    let stats = ex.stats.last().cloned().unwrap_or_default();
    let par_commits = stats.counters.get("pivot.commit.par").copied().unwrap_or(0);
    let retries = stats.counters.get("pivot.retry").copied().unwrap_or(0);
    rep.nontrivial = par_commits > 0 && ex.cfg.run.par.workers > 1;
    rep.counters.insert("runs_with_parallel_commit".into(), (par_commits > 0) as u64);
    rep.counters.insert("runs_with_retry".into(), (retries > 0) as u64);
    match res {
        Err(ab) => {
            rep.outcome_class = "abort".into();
            // the commit history usually pinpoints the first bad commit behind a later panic
            let a_or = if pt == PivotType::Rows { dm.clone() } else { dm.transpose() };
            let v = abort_to_violation(&ab);
            rep.violation = Some(match check_commit_history(&a_or, &stats.events) {
                Some(h) if !v.class.starts_with("harness") => Violation::new(&h.class, format!("{}; then: {}", h.message, v.message)),
                _ => v,
            });
        }
        Ok((pivs, b)) => {
            rep.outcome_class = format!("{} pivots", pivs.len().min(99));
            let mut d = 0u64;
            for &(i, j) in &pivs {
                d = rt::mix(d, ((i as u64) << 32) | j as u64);
            }
            rep.outcome_digest = d;
            let a_or = if pt == PivotType::Rows { dm.clone() } else { dm.transpose() };
            rep.violation = check_commit_history(&a_or, &stats.events)
                .or_else(|| check_pivots::<R>(&dm, case, &pivs))
                .or_else(|| {
                    // (c) permuted matrix: leading r x r block == B, rest is a permutation of a
                    let bd = spmat_to_dm(&b);
                    let r = pivs.len();
                    for k in 0..r {
                        for l in 0..r {
                            if bd.get(k, l) != dm.get(pivs[k].0, pivs[l].1) {
                                return Some(Violation::new("permuted-block-mismatch", format!("permuted[{k}][{l}] != a[{}][{}]", pivs[k].0, pivs[l].1)));
                            }
                        }
                    }
                    if bd.nnz() != dm.nnz() {
                        return Some(Violation::new("permuted-block-mismatch", "permutation changed the number of non-zero entries".to_string()));
                    }
                    None
                })
;
            // The recorded commit history need not account for every returned pivot: the property
            // speaks about the returned set, and code may gain a commit path that carries no probe
            // (an earlier version of this check demanded commits == pivots and so flagged a harmless
            // sequential fallback path of a seeded change for the wrong reason). Counted, not judged.
            let commits = stats.events.iter().filter(|e| e.site.starts_with("pivot.commit")).count();
            if commits != pivs.len() {
                rep.counters.insert("commit_history_incomplete".into(), 1);
            }
        }
    }
    rep
}

impl Check for C11 {
    fn id(&self) -> &'static str {
        "C11"
    }
    fn rule(&self) -> String {
        "one run = (sparse matrix, pivot type, condition) x (worker count 1..16, pick-up policy, scheduler strategy, schedule seed, hash seeds, buggify set), all drawn from mix(VERIF_SEED, run index); matrices: random sparse (5-40% density, stored zeros in 20%), banded/chain, simplicial boundary, block-diagonal; rings Z, Q, F2, F3, Z[H]. distinct = distinct digest of the full event log (scheduler decisions, pick-ups, probe events, hash draws, result); non-trivial = at least one pivot was committed in the parallel phase by a run with >= 2 workers".into()
    }
    fn assumptions(&self) -> Vec<String> {
        vec![
            "the rayon shim's executor semantics (k workers pulling items, scheduling point at every pick-up and lock operation) cover what rayon can do to this code; cross-checked by the Miri pass on the unmodified stack (thorough)".into(),
            "code between two lock operations is atomic w.r.t. other workers (true for safe Rust without atomics: no other shared mutable state exists in find_pivots)".into(),
            "the orientation of 'triangular' is the one the chain reducer relies on: upper for Rows, lower for Cols".into(),
            "inputs are sampled, not enumerated".into(),
        ]
    }
    fn required_probes(&self) -> Vec<&'static str> {
        vec!["probe:pivot.commit.par", "probe:pivot.retry", "runs_with_parallel_commit"]
    }
    fn buggify_menu(&self) -> Vec<&'static str> {
        vec!["pivot.spurious_retry"]
    }
    fn max_steps(&self) -> usize {
        // liveness: every retry is caused by another worker's commit, so lock operations are
        // bounded by rows * (pivots + 1) * const; 24 x 24 matrices stay far below this
        60_000
    }
    fn runs(&self, tier: &str) -> u64 {
        if tier == "quick" { 120_000 } else { 2_500_000 }
    }
    fn gen_case(&self, rng: &mut Rng, _idx: u64, _tier: &str) -> Value {
        let ring = *rng.pick(&["Z", "Z", "ZB", "Q", "F2", "F3", "ZH"]);
        let a = matgen::gen_matrix(rng, ring);
        let ptype = if rng.chance(1, 2) { "Rows" } else { "Cols" };
        let (cond, w) = match rng.below(4) {
            0 | 1 => ("One", 0.0),
            2 => ("AnyUnit", 0.0),
            _ => ("Weight", *rng.pick(&[1.0, 2.0, 3.0])),
        };
        json!({ "ring": ring, "a": a, "ptype": ptype, "cond": cond, "w": w })
    }
    fn tune_cfg(&self, _rng: &mut Rng, case: &Value, cfg: &mut SimCfg) {
        // the step bound is a livelock detector, not a performance bound: code that splits a scan
        // over a thousand columns into items legitimately takes a scheduling point per item
        if case["a"]["m"].as_u64().unwrap().max(case["a"]["n"].as_u64().unwrap()) >= 250 {
            cfg.max_steps = cfg.max_steps.max(5_000_000);
        }
    }
    fn run_case(&self, case: &Value, ex: &mut Executor) -> RunReport {
        let ring = case["ring"].as_str().unwrap();
        crate::dispatch_ring!(ring, run_typed, case, ex)
    }
    fn shrink_case(&self, case: &Value) -> Vec<Value> {
        matgen::shrink_matrix(&case["a"]).into_iter().map(|a| {
            let mut c = case.clone();
            c["a"] = a;
            c
        }).collect()
    }
}
