//! C01 — Khovanov homology equals the cube-of-resolutions definition, independent of the order
//! in which crossings are absorbed, of the delooping / elimination path (hash order) and of the
//! number of threads.

use std::collections::BTreeMap;

use serde_json::{json, Value};
use yui::EucRingOps;
use yui_kh::kh::KhHomology;
use yui_verif_rt as rt;
use yui_verif_rt::Rng;

use crate::diag::{self, pd_from_json, pd_to_json};
use crate::framework::*;
use crate::khcommon::*;

pub struct C01;

type Out = (Result<Graded, String>, Option<(Result<Bigraded, String>, Result<Bigraded, String>)>);

fn run_sut<R: KhRing>(case: &Value) -> Out
where
    for<'x> &'x R: EucRingOps<R>,
{
    let pd = pd_from_json(&case["pd"]);
    let (h, t) = (case["h"].as_i64().unwrap(), case["t"].as_i64().unwrap());
    let reduced = case["reduced"].as_bool().unwrap();
    let l = link_of(&pd);
    let kh = KhHomology::<R>::new(&l, &R::from_int(h), &R::from_int(t), reduced);
    let mut g = graded_of(&kh);
    // restricting the answer to a range of homological degrees returns exactly that part of it
    if let (Some(tr), Ok(full)) = (case.get("trunc").and_then(|v| v.as_array()), &g) {
        use yui_homology::GridTrait;
        let sup: Vec<isize> = kh.support().collect();
        if let (Some(&lo0), Some(&hi0)) = (sup.iter().min(), sup.iter().max()) {
            let (lo, hi) = (lo0 + tr[0].as_i64().unwrap() as isize, hi0 - tr[1].as_i64().unwrap() as isize);
            let part = if lo <= hi { graded_of(&kh.truncated(lo..=hi)) } else { Ok(Graded::new()) };
            let want: Graded = full.iter().filter(|(i, _)| (lo..=hi).contains(&(**i as isize))).map(|(i, t)| (*i, t.clone())).collect();
            match part {
                Ok(p) if p == want => {}
                Ok(p) => g = Err(format!("truncated({lo}..={hi}) of {} is {}", describe_graded(full), describe_graded(&p))),
                Err(e) => g = Err(format!("truncated({lo}..={hi}): {e}")),
            }
        }
    }
    let big = (h == 0 && t == 0).then(|| (bigraded_of(&kh.into_bigraded()), bigraded_via_complex::<R>(&l, reduced)));
    (g, big)
}

#[macro_export]
macro_rules! dispatch_khring {
    ($name:expr, $f:ident, $($args:expr),*) => {
        match $name {
            "Z" => $f::<i64>($($args),*),
            "ZB" => $f::<num_bigint::BigInt>($($args),*),
            "Q" => $f::<yui::Ratio<i64>>($($args),*),
            "F2" => $f::<yui::FF<2>>($($args),*),
            "F3" => $f::<yui::FF<3>>($($args),*),
            other => panic!("unknown ring {other}"),
        }
    };
}

pub const REF_MAX_CROSSINGS: usize = 9;

fn run_typed<R: KhRing>(case: &Value, ex: &mut Executor) -> RunReport
where
    for<'x> &'x R: EucRingOps<R>,
{
    let mut rep = RunReport::default();
    let c1 = case.clone();
    let res = ex.exec(None, rt::fs::Disk::default(), move || run_sut::<R>(&c1));
    let st = ex.stats.last().cloned().unwrap_or_default();
    rep.nontrivial = st.par_calls > 0 && (st.max_workers_used >= 2 || st.hash_draws > 0);
    rep.counters.insert("runs_with_parallel_pivot_commit".into(), (st.counters.get("pivot.commit.par").copied().unwrap_or(0) > 0) as u64);
    rep.counters.insert(format!("ring:{}", R::NAME), 1);
    let pd = pd_from_json(&case["pd"]);
    rep.counters.insert(format!("crossings:{}", pd.len()), 1);
    let (h, t) = (case["h"].as_i64().unwrap(), case["t"].as_i64().unwrap());
    let reduced = case["reduced"].as_bool().unwrap();
    let (g, big) = match res {
        Err(a) => {
            let v = abort_to_violation(&a);
            if matches!(R::NAME, "Z" | "Q") && is_machine_overflow(&v) {
                // machine integers are not Z: an arithmetic-overflow panic of i64 is outside the property
                rep.counters.insert("i64_overflow_skipped".into(), 1);
                rep.outcome_class = "i64-overflow".into();
                return rep;
            }
            rep.violation = Some(v);
            rep.outcome_class = "abort".into();
            return rep;
        }
        Ok(x) => x,
    };
    let g = match g {
        Err(e) => { rep.violation = Some(Violation::new("malformed-homology", e)); return rep; }
        Ok(g) => g,
    };
    rep.detail = describe_graded(&g);
    rep.outcome_class = format!("total rank {}", g.values().map(|t| t.rank).sum::<usize>().min(99));
    let mut d = 0u64;
    for b in rep.detail.bytes() { d = d.wrapping_mul(131).wrapping_add(b as u64); }
    rep.outcome_digest = d;
    if let Some((b1, b2)) = &big {
        for (route, b) in [("total->bigraded", b1), ("bigraded complex", b2)] {
            match b {
                Err(e) => { rep.violation = Some(Violation::new("malformed-homology", format!("{route}: {e}"))); return rep; }
                Ok(b) => rep.detail += &format!(" | {}", describe_bigraded(b)),
            }
        }
    }
    // a heavily kinked diagram is compared with the definition applied to the kink-free diagram
    // (Reidemeister-1 invariance of the homology the definition computes)
    let pd = match case.get("ref_pd") { Some(v) if !v.is_null() => { rep.counters.insert("kinked_over_32_crossings".into(), 1); pd_from_json(v) } _ => pd };
    if pd.len() > case["ref_max"].as_u64().unwrap_or(REF_MAX_CROSSINGS as u64) as usize {
        rep.counters.insert("cross_run_only".into(), 1);
        // beyond the reference: besides the comparison with every other run of the same input, the
        // same computation is repeated on ONE simulated worker (no interleaving, nothing split by
        // worker count) and has to give the same answer
        if case["twin"] == true && ex.cfg.run.par.workers > 1 {
            let c2 = case.clone();
            let one = ex.exec(Some(yui_verif_rt::ParCfg { workers: 1, nested_workers: 1, ..ex.cfg.run.par.clone() }), rt::fs::Disk::default(), move || run_sut::<R>(&c2));
            rep.counters.insert("one_worker_twins".into(), 1);
            match one {
                Ok((Ok(g1), big1)) => {
                    let same_big = match (&big, &big1) {
                        (Some((Ok(a1), Ok(a2))), Some((Ok(b1), Ok(b2)))) => a1 == b1 && a2 == b2,
                        (None, None) => true,
                        _ => false,
                    };
                    if g1 != g || !same_big {
                        rep.violation = Some(Violation::new("differs-from-one-worker", format!("{} workers: {} ; one worker: {}", ex.cfg.run.par.workers, describe_graded(&g), describe_graded(&g1))));
                    }
                }
                Ok((Err(e), _)) => rep.violation = Some(Violation::new("malformed-homology", format!("[1 worker] {e}"))),
                Err(a) => {
                    let v = abort_to_violation(&a);
                    if !(matches!(R::NAME, "Z" | "Q") && is_machine_overflow(&v)) {
                        rep.violation = Some(Violation::new(&v.class, format!("[1 worker] {}", v.message)));
                    }
                }
            }
        }
        return rep;
    }
    // a component that never passes under a crossing may be oriented either way by the library:
    // the answer must agree with the definition for ONE of those orientations (all other signs
    // are forced)
    let refs = references(&pd, h, t, reduced, R::MODULUS);
    if refs.len() > 1 { rep.counters.insert("orientation_ambiguous_any_of".into(), 1); }
    rep.counters.insert("compared_with_reference".into(), 1);
    let matches = |r: &RefKh| -> bool {
        if g != r.graded { return false; }
        if let (Some((Ok(b1), Ok(b2))), Some(rb)) = (&big, &r.bigraded) {
            if b2 != rb || b1 != rb { return false; }
        }
        true
    };
    if refs.iter().any(|r| matches(r)) {
        return rep;
    }
    let r = &refs[0];
    if g != r.graded {
        rep.violation = Some(Violation::new("differs-from-cube", format!("library: {} ; cube of resolutions: {}{}", describe_graded(&g), describe_graded(&r.graded), if refs.len() > 1 { " (nor for any orientation of the over-only components)" } else { "" })));
        return rep;
    }
    if let (Some((Ok(b1), Ok(b2))), Some(rb)) = (&big, &r.bigraded) {
        if b2 != rb {
            rep.violation = Some(Violation::new("bigraded-differs-from-cube", format!("library (bigraded complex): {} ; cube: {}", describe_bigraded(b2), describe_bigraded(rb))));
        } else if b1 != rb {
            rep.violation = Some(Violation::new("bigraded-differs-from-cube", format!("library (total homology split by q): {} ; cube: {}", describe_bigraded(b1), describe_bigraded(rb))));
        }
    }
    if rep.violation.is_none() {
        rep.violation = Some(Violation::new("differs-from-cube", "no single orientation of the over-only components explains both the graded and the bigraded answer".to_string()));
    }
    rep
}

pub fn draw_ht(rng: &mut Rng) -> (i64, i64) {
    *rng.pick(&[(0, 0), (0, 0), (0, 0), (1, 0), (1, 0), (2, 0), (3, 0), (0, 1), (0, 1), (1, 1), (-1, 2)])
}

impl Check for C01 {
    fn id(&self) -> &'static str { "C01" }
    fn rule(&self) -> String {
        format!("one run = (diagram, ring, (h,t), reduced, crossing order) x (1..16 workers, pick-up policy, scheduler strategy, schedule seed, std+ahash hash seeds); diagrams: 41 table knots/links (3..11 crossings) and their mirrors, R1-kinked diagrams, unknot diagrams, split unions, the empty link, random braid closures on 2-4 strands; rings Z (i64, BigInt), Q, F2, F3; (h,t) in {{(0,0),(1,0),(2,0),(3,0),(0,1),(1,1),(-1,2)}}. Oracle: own cube-of-resolutions complex + own Smith reduction for diagrams with <= {REF_MAX_CROSSINGS} crossings (quick; one more in thorough), equality across all runs of the same input beyond. distinct = distinct event-log digests; non-trivial = the run made parallel calls and drew hash seeds")
    }
    fn assumptions(&self) -> Vec<String> {
        vec![
            "rayon executor semantics modelled by the shim".into(),
            "reduced theory: base point = smallest edge label of the first listed crossing (the library's documented choice)".into(),
            "a component that never passes under a crossing may be oriented either way: the answer must match the definition for one of those orientations".into(),
            "an arithmetic-overflow panic with i64 coefficients is not counted (machine integers are not Z); BigInt runs cover those inputs".into(),
            "inputs sampled, not enumerated".into(),
        ]
    }
    fn required_probes(&self) -> Vec<&'static str> {
        vec!["compared_with_reference", "ring:Z", "ring:ZB", "ring:Q", "ring:F2", "ring:F3"]
    }
    fn max_steps(&self) -> usize { 20_000_000 }
    fn runs(&self, tier: &str) -> u64 { if tier == "quick" { 20_000 } else { 1_000_000 } }
    fn gen_case(&self, rng: &mut Rng, _idx: u64, tier: &str) -> Value {
        let max_x = if tier == "quick" { 9 } else { 11 };
        // ~1% big diagrams (cross-run oracle only); thorough adds a few giant ones
        let big = rng.chance(1, if tier == "quick" { 150 } else { 100 });
        let giant = tier != "quick" && rng.chance(1, 4000);
        let kinked = !big && !giant && rng.chance(1, 120);
        let mut ref_pd = Value::Null;
        let (name, pd) = if giant { diag::draw_giant(rng) } else if big { diag::draw_big(rng, tier != "quick") } else if kinked {
            let (n, p, b) = diag::draw_kinked(rng);
            ref_pd = pd_to_json(&b);
            (n, p)
        } else { diag::draw(rng, max_x) };
        let pd = diag::permute_crossings(rng, &pd);
        let ring = if big || giant { *rng.pick(&["Z", "ZB", "F2", "F3"]) } else { *rng.pick(&["Z", "Z", "ZB", "Q", "F2", "F3"]) };
        let (mut h, mut t) = draw_ht(rng);
        // (the library's cost on big and on heavily kinked diagrams explodes for h or t != 0)
        if big || giant || kinked { h = 0; t = 0; }
        if ring == "Z" && pd.len() > 7 && (h.abs() > 1 || t.abs() > 1) { h = 1; t = 0; }
        let reduced = t == 0 && !pd.is_empty() && rng.chance(1, 3);
        // the cube-of-resolutions reference costs ~0.5 s per new 10-crossing input: thorough only
        let ref_max = if tier == "quick" { REF_MAX_CROSSINGS } else { REF_MAX_CROSSINGS + 1 };
        let mut case = json!({ "name": name, "pd": pd_to_json(&pd), "ring": ring, "h": h, "t": t, "reduced": reduced, "ref_max": ref_max });
        if !ref_pd.is_null() { case["ref_pd"] = ref_pd; }
        if rng.chance(1, 6) { case["trunc"] = json!([rng.below(3), rng.below(3)]); }
        if (big || giant) && rng.chance(1, 2) { case["twin"] = json!(true); }
        case
    }
    fn run_case(&self, case: &Value, ex: &mut Executor) -> RunReport {
        let ring = case["ring"].as_str().unwrap();
        crate::dispatch_khring!(ring, run_typed, case, ex)
    }
    fn has_cross_check(&self) -> bool { true }
    fn cross_check(&self, runs: &[(u64, Value, RunReport)]) -> Vec<(u64, Violation)> {
        // the answer may not depend on crossing order, schedule, hash order or worker count
        let mut first: BTreeMap<String, (u64, String)> = BTreeMap::new();
        let mut out = vec![];
        for (idx, case, rep) in runs {
            if rep.violation.is_some() || rep.detail.is_empty() { continue; }
            let mut pd = pd_from_json(&case["pd"]);
            let base = base_edge(&pd);
            pd.sort();
            let key = format!("{:?}|{}|{}|{}|{}|{:?}", pd, case["ring"], case["h"], case["t"], case["reduced"], if case["reduced"] == true { base } else { None });
            match first.get(&key) {
                None => { first.insert(key, (*idx, rep.detail.clone())); }
                Some((i0, d0)) => {
                    if d0 != &rep.detail {
                        out.push((*idx, Violation::new("path-dependent-answer", format!("run {idx} and run {i0} computed the same input but reported {} vs {}", rep.detail, d0))));
                    }
                }
            }
        }
        out
    }
}
