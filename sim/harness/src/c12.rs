//! C12 — sparse kernels (triangular solve, Schur complement, block splitting) are exact and give
//! the same value on one simulated worker and on many.

use refmodel::{RefRing, DM};
use serde_json::{json, Value};
use yui::RingOps;
use yui_matrix::sparse::decomp::dir_sum_decomp;
use yui_matrix::sparse::schur::Schur;
use yui_matrix::sparse::triang::{inv_triangular, solve_triangular, solve_triangular_left, solve_triangular_vec, TriangularType};
use yui_matrix::sparse::{SpMat, SpVec};
use yui_matrix::MatTrait;
use yui_verif_rt as rt;
use yui_verif_rt::{ParCfg, Rng};

use crate::framework::*;
use crate::matgen::{self, is_zero_val, neg_val};
use crate::rings::*;

pub struct C12;

// ---------------------------------------------------------------------------------------------
// workload generation
// ---------------------------------------------------------------------------------------------

fn abs_val(ring: &str, v: &Value) -> f64 {
    match ring {
        "Z" | "ZB" | "F2" | "F3" | "F7" => v.as_f64().unwrap().abs(),
        "Q" => (v[0].as_f64().unwrap() / v[1].as_f64().unwrap()).abs(),
        "ZH" => v.as_array().unwrap().iter().map(|t| t[1].as_f64().unwrap().abs()).sum(),
        "ZI" => v[0].as_f64().unwrap().abs() + v[1].as_f64().unwrap().abs(),
        _ => 1.0,
    }
}

fn gen_entry(rng: &mut Rng, ring: &str, unit: bool) -> Value {
    match (ring, unit) {
        // small numerators and denominators; an i64 overflow that still happens is skipped, not reported
        ("Q", true) => json!(*rng.pick(&[[1, 1], [-1, 1], [2, 1], [-2, 1], [1, 2], [-1, 2], [3, 1], [-1, 3], [3, 2], [2, 3]])),
        ("Q", false) => json!(*rng.pick(&[[1, 1], [-1, 1], [1, 1], [2, 1], [-1, 2], [1, 3], [-3, 1], [5, 1], [2, 3]])),
        ("Z", false) | ("ZB", false) => json!(*rng.pick(&[1i64, -1, 1, -1, 2, -2, 3])),
        ("ZH", false) => <yui::poly::Poly<'H', i64> as SimRing>::gen(rng, 0),
        (_, true) => gen_any(rng, ring, 2),
        (_, false) => gen_any(rng, ring, 0),
    }
}

fn gen_any(rng: &mut Rng, ring: &str, kind: u32) -> Value {
    match ring {
        "Z" | "ZB" => <i64 as SimRing>::gen(rng, kind),
        "Q" => <yui::Ratio<i64> as SimRing>::gen(rng, kind),
        "F2" => <yui::FF<2> as SimRing>::gen(rng, kind),
        "F3" => <yui::FF<3> as SimRing>::gen(rng, kind),
        "F7" => <yui::FF<7> as SimRing>::gen(rng, kind),
        "ZH" => <yui::poly::Poly<'H', i64> as SimRing>::gen(rng, kind),
        "ZI" => <yui::GaussInt<i64> as SimRing>::gen(rng, kind),
        _ => unreachable!(),
    }
}

/// n x n triangular matrix with unit diagonal entries; returns (json, growth bound) where the
/// bound dominates every entry of |A^-1| (comparison-matrix argument), so that workloads whose
/// exact solution could leave the machine-integer range are thinned out instead of producing
/// arithmetic-overflow panics that have nothing to do with the property.
fn gen_triangular(rng: &mut Rng, ring: &str, n: usize, upper: bool) -> (Value, f64) {
    let mut dens = if n > 30 { *rng.pick(&[2u64, 4, 8]) } else { *rng.pick(&[8u64, 20, 35, 60]) };
    loop {
        let mut entries = vec![];
        let mut absm = vec![vec![0.0f64; n]; n];
        let mut diag_inv = vec![1.0f64; n];
        for i in 0..n {
            let d = gen_entry(rng, ring, true);
            diag_inv[i] = 1.0 / abs_val(ring, &d).max(1e-9);
            if matches!(ring, "F2" | "F3" | "F7") { diag_inv[i] = 1.0; }
            entries.push(json!([i, i, d]));
            for j in 0..n {
                let in_tri = if upper { j > i } else { j < i };
                if in_tri && rng.below(100) < dens {
                    let v = gen_entry(rng, ring, false);
                    if is_zero_val(ring, &v) { continue; }
                    absm[i][j] = abs_val(ring, &v);
                    entries.push(json!([i, j, v]));
                }
            }
        }
        // bound on |A^-1|: solve with the comparison matrix
        let mut inv = vec![vec![0.0f64; n]; n];
        let order: Vec<usize> = if upper { (0..n).rev().collect() } else { (0..n).collect() };
        let mut worst = 1.0f64;
        for c in 0..n {
            for &i in &order {
                let mut s = if i == c { 1.0 } else { 0.0 };
                for k in 0..n {
                    if k != i { s += absm[i][k] * inv[k][c]; }
                }
                inv[i][c] = s * diag_inv[i];
                worst = worst.max(inv[i][c]);
            }
        }
        let field = matches!(ring, "F2" | "F3" | "F7");
        if field || worst < 1e9 {
            // explicit stored zeros strictly inside the triangle
            if rng.chance(1, 4) && n >= 2 {
                for _ in 0..(1 + rng.below(3)) {
                    let (mut i, mut j) = (rng.below(n as u64) as usize, rng.below(n as u64) as usize);
                    if i == j { continue; }
                    // a stored zero is a zero wherever it sits: half of them go to the *other*
                    // triangle, where a mathematically triangular matrix may still store one
                    let want_inside = rng.chance(1, 2);
                    let inside = (upper && i < j) || (!upper && i > j);
                    if inside != want_inside { std::mem::swap(&mut i, &mut j); }
                    if entries.iter().any(|e| e[0] == json!(i) && e[1] == json!(j)) { continue; }
                    let v = gen_any(rng, ring, 1);
                    entries.push(json!([i, j, v]));
                    entries.push(json!([i, j, neg_val(ring, &v)]));
                }
            }
            return (json!({ "m": n, "n": n, "entries": entries }), if field { 1.0 } else { worst });
        }
        dens = dens * 2 / 3;
    }
}

fn gen_rect(rng: &mut Rng, ring: &str, m: usize, n: usize, col_varied: bool) -> Value {
    let mut entries = vec![];
    let base = *rng.pick(&[10u64, 25, 50]);
    for j in 0..n {
        let dens = if col_varied { *rng.pick(&[0u64, 5, 20, 60, 100]) } else { base };
        for i in 0..m {
            if rng.below(100) < dens {
                let v = gen_entry(rng, ring, false);
                if !is_zero_val(ring, &v) {
                    entries.push(json!([i, j, v]));
                }
            }
        }
    }
    if rng.chance(1, 5) && m > 0 && n > 0 {
        let (i, j) = (rng.below(m as u64), rng.below(n as u64));
        if !entries.iter().any(|e| e[0] == json!(i) && e[1] == json!(j)) {
            let v = gen_any(rng, ring, 1);
            entries.push(json!([i, j, v]));
            entries.push(json!([i, j, neg_val(ring, &v)]));
        }
    }
    json!({ "m": m, "n": n, "entries": entries })
}

fn has_stored_zero(a: &Value) -> bool {
    let es = a["entries"].as_array().unwrap();
    let mut seen = std::collections::BTreeSet::new();
    es.iter().any(|e| !seen.insert((e[0].as_u64().unwrap(), e[1].as_u64().unwrap())))
}

fn gen_case_inner(rng: &mut Rng) -> Value {
    let kind = *rng.pick(&["solve", "solve", "solve_left", "inv", "solve_vec", "schur", "schur", "decomp", "decomp"]);
    let ring = *rng.pick(&["Z", "ZB", "Q", "F2", "F3", "F7", "ZI", "ZH"]);
    let nmax: u64 = match ring { "Q" => 9, "ZH" => 8, _ => 20 };
    let upper = rng.chance(1, 2);
    match kind {
        "solve" | "solve_left" | "inv" | "solve_vec" => {
            // one run in sixteen is large (batched / chunked variants of the column loop only differ there)
            let big = rng.chance(1, 16) && matches!(ring, "Z" | "ZB" | "F2" | "F3" | "F7");
            // one run in twenty-four has hundreds of right-hand sides for a small system (column loops
            // split into per-worker blocks only beyond some width)
            let many_rhs = !big && matches!(kind, "solve" | "solve_left") && rng.chance(1, 24);
            let n = if big { 65 + rng.below(40) as usize } else if many_rhs { 2 + rng.below(7) as usize } else { match rng.below(8) { 0 => 0, 1 => 1, _ => 2 + rng.below(nmax - 1) as usize } };
            let (a, _) = gen_triangular(rng, ring, n, upper);
            let k = match kind { "solve_vec" => 1, _ if many_rhs => 256 + rng.below(170) as usize, _ => match rng.below(12) { 0 | 1 => 0, 2 | 3 => 1, 4 => 40 + rng.below(80) as usize, _ => 2 + rng.below(29) as usize } };
            let y = match kind {
                "solve_left" => gen_rect(rng, ring, k, n, false),
                "inv" => json!(null),
                _ => gen_rect(rng, ring, n, k, true),
            };
            json!({ "kind": kind, "ring": ring, "upper": upper, "a": a, "y": y })
        }
        "schur" => {
            let big = rng.chance(1, 16) && matches!(ring, "Z" | "ZB" | "F2" | "F3" | "F7");
            let nmax = if big { 90 } else { nmax.min(12) };
            let m = 1 + rng.below(nmax) as usize;
            let n = 1 + rng.below(nmax) as usize;
            let r = match rng.below(5) { 0 => 0, 1 => m.min(n), _ => rng.below(m.min(n) as u64 + 1) as usize };
            let (a, _) = gen_triangular(rng, ring, r, upper);
            let b = gen_rect(rng, ring, r, n - r, true);
            let c = gen_rect(rng, ring, m - r, r, false);
            let d = gen_rect(rng, ring, m - r, n - r, false);
            let mut entries = a["entries"].as_array().unwrap().clone();
            let mut put = |blk: &Value, di: usize, dj: usize| {
                for e in blk["entries"].as_array().unwrap() {
                    entries.push(json!([e[0].as_u64().unwrap() as usize + di, e[1].as_u64().unwrap() as usize + dj, e[2]]));
                }
            };
            put(&b, 0, r);
            put(&c, r, 0);
            put(&d, r, r);
            json!({ "kind": kind, "ring": ring, "upper": upper, "r": r, "a": { "m": m, "n": n, "entries": entries } })
        }
        _ => {
            // block-diagonal matrix hidden under random row/column permutations, with zero rows/cols;
            // one run in six is wide (30-70 columns): size is a tuning knob the code may branch on
            let wide = rng.chance(1, 3);
            let nb = if wide { 2 + rng.below(10) as usize } else { rng.below(5) as usize };
            let mut blocks = vec![];
            let (mut m, mut n) = (0usize, 0usize);
            for _ in 0..nb {
                let (bm, bn) = if wide { (1 + rng.below(8) as usize, 2 + rng.below(12) as usize) } else { (1 + rng.below(4) as usize, 1 + rng.below(4) as usize) };
                blocks.push((m, n, bm, bn));
                m += bm;
                n += bn;
            }
            let (zr, zc) = (rng.below(3) as usize, rng.below(3) as usize);
            let (tm, tn) = (m + zr, n + zc);
            let mut pr: Vec<usize> = (0..tm).collect();
            let mut pc: Vec<usize> = (0..tn).collect();
            if rng.chance(4, 5) {
                rng.shuffle(&mut pr);
                rng.shuffle(&mut pc);
            }
            let mut entries = vec![];
            let stored_zero = rng.chance(1, 4);
            for &(r0, c0, bm, bn) in &blocks {
                let dens = if wide { *rng.pick(&[0u64, 0, 3, 10, 40]) } else { *rng.pick(&[40u64, 70, 100]) };
                if wide {
                    // a spanning chain keeps the block connected however sparse it is
                    for j in 0..bn {
                        let i = j * bm / bn.max(1);
                        let ri = pr[r0 + i.min(bm - 1)];
                        for jj in [j, j + 1] {
                            if jj < bn && !entries.iter().any(|e: &Value| e[0] == json!(ri) && e[1] == json!(pc[c0 + jj])) {
                                entries.push(json!([ri, pc[c0 + jj], gen_entry(rng, ring, true)]));
                            }
                        }
                    }
                }
                for i in 0..bm {
                    for j in 0..bn {
                        if rng.below(100) < dens {
                            let v = gen_entry(rng, ring, false);
                            let taken = wide && entries.iter().any(|e| e[0] == json!(pr[r0 + i]) && e[1] == json!(pc[c0 + j]));
                            if !is_zero_val(ring, &v) && !taken {
                                entries.push(json!([pr[r0 + i], pc[c0 + j], v]));
                            }
                        }
                    }
                }
            }
            if stored_zero && tm > 0 && tn > 0 {
                for _ in 0..(1 + rng.below(3)) {
                    let (i, j) = (rng.below(tm as u64), rng.below(tn as u64));
                    if !entries.iter().any(|e| e[0] == json!(i) && e[1] == json!(j)) {
                        let v = gen_any(rng, ring, 1);
                        entries.push(json!([i, j, v]));
                        entries.push(json!([i, j, neg_val(ring, &v)]));
                    }
                }
            }
            json!({ "kind": "decomp", "ring": ring, "a": { "m": tm, "n": tn, "entries": entries } })
        }
    }
}

// ---------------------------------------------------------------------------------------------
// execution + oracles
// ---------------------------------------------------------------------------------------------

fn tt(upper: bool) -> TriangularType {
    if upper { TriangularType::Upper } else { TriangularType::Lower }
}

fn one_worker() -> ParCfg {
    ParCfg { workers: 1, nested_workers: 1, ..Default::default() }
}

enum Out<R: SimRing>
where
    for<'x> &'x R: RingOps<R>,
{
    Mat(SpMat<R>),
    Vec(SpVec<R>),
    Schur(SpMat<R>, SpMat<R>, SpMat<R>, SpMat<R>, SpMat<R>),
    Decomp(Vec<usize>, Vec<usize>, Vec<SpMat<R>>, SpMat<R>),
}

fn run_sut<R: SimRing>(case: &Value) -> Out<R>
where
    for<'x> &'x R: RingOps<R>,
{
    let kind = case["kind"].as_str().unwrap();
    let a = spmat_from_json::<R>(&case["a"]);
    let upper = case["upper"].as_bool().unwrap_or(true);
    match kind {
        "solve" => Out::Mat(solve_triangular(tt(upper), &a, &spmat_from_json::<R>(&case["y"]))),
        "solve_left" => Out::Mat(solve_triangular_left(tt(upper), &a, &spmat_from_json::<R>(&case["y"]))),
        "inv" => Out::Mat(inv_triangular(tt(upper), &a)),
        "solve_vec" => {
            let y = spmat_from_json::<R>(&case["y"]);
            let v = if y.ncols() == 1 { y.col_vec(0) } else { SpVec::zero(a.nrows()) };
            Out::Vec(solve_triangular_vec(tt(upper), &a, &v))
        }
        "schur" => {
            let r = case["r"].as_u64().unwrap() as usize;
            let s = Schur::from_partial_triangular(tt(upper), &a, r, true);
            let (c, ts, tg) = s.disassemble();
            let (ts, tg) = (ts.unwrap(), tg.unwrap());
            Out::Schur(c, ts.forward_mat(), ts.backward_mat(), tg.forward_mat(), tg.backward_mat())
        }
        _ => {
            let (p, q, blocks) = dir_sum_decomp(a.clone());
            let b = a.permute(p.view(), q.view());
            let pv = (0..p.dim()).map(|i| p.at(i)).collect();
            let qv = (0..q.dim()).map(|i| q.at(i)).collect();
            Out::Decomp(pv, qv, blocks, b)
        }
    }
}

/// connected components of the bipartite row/column incidence graph of the non-zero entries
fn components<Rr: RefRing>(a: &DM<Rr>) -> usize {
    let (m, n) = (a.rows, a.cols);
    let mut parent: Vec<usize> = (0..m + n).collect();
    fn find(p: &mut Vec<usize>, x: usize) -> usize {
        if p[x] != x { let r = find(p, p[x]); p[x] = r; }
        p[x]
    }
    let mut touched = vec![false; m + n];
    for i in 0..m {
        for j in 0..n {
            if !a.get(i, j).is_zero() {
                touched[i] = true;
                touched[m + j] = true;
                let (x, y) = (find(&mut parent, i), find(&mut parent, m + j));
                parent[x] = y;
            }
        }
    }
    let mut roots = std::collections::BTreeSet::new();
    for x in 0..m + n {
        if touched[x] { let r = find(&mut parent, x); roots.insert(r); }
    }
    roots.len()
}

fn oracle<R: SimRing>(case: &Value, out: &Out<R>) -> Option<Violation>
where
    for<'x> &'x R: RingOps<R>,
{
    let kind = case["kind"].as_str().unwrap();
    let a = dm_from_json::<R>(&case["a"]);
    let upper = case["upper"].as_bool().unwrap_or(true);
    match (kind, out) {
        ("solve", Out::Mat(x)) => {
            let (x, y) = (spmat_to_dm(x), dm_from_json::<R>(&case["y"]));
            if (x.rows, x.cols) != (a.cols, y.cols) { return Some(Violation::new("wrong-shape", format!("X is {}x{}", x.rows, x.cols))); }
            (a.mul(&x) != y).then(|| Violation::new("solve-wrong", "A*X != Y".to_string()))
        }
        ("solve_left", Out::Mat(x)) => {
            let (x, y) = (spmat_to_dm(x), dm_from_json::<R>(&case["y"]));
            if (x.rows, x.cols) != (y.rows, a.rows) { return Some(Violation::new("wrong-shape", format!("X is {}x{}", x.rows, x.cols))); }
            (x.mul(&a) != y).then(|| Violation::new("solve-left-wrong", "X*A != Y".to_string()))
        }
        ("inv", Out::Mat(x)) => {
            let x = spmat_to_dm(x);
            (!a.mul(&x).is_id() || !x.mul(&a).is_id()).then(|| Violation::new("inv-wrong", "A*X != I".to_string()))
        }
        ("solve_vec", Out::Vec(x)) => {
            let y = dm_from_json::<R>(&case["y"]);
            let xd = DM::from_entries(x.dim(), 1, x.iter().map(|(i, r)| (i, 0, r.to_ref())));
            let want = if y.cols == 1 { y } else { DM::zero(a.rows, 1) };
            (a.mul(&xd) != want).then(|| Violation::new("solve-vec-wrong", "A*x != y".to_string()))
        }
        ("schur", Out::Schur(s, fs, bs, ft, bt)) => {
            let r = case["r"].as_u64().unwrap() as usize;
            let (m, n) = (a.rows, a.cols);
            let (aa, b, c, d) = (a.sub_block(0..r, 0..r), a.sub_block(0..r, r..n), a.sub_block(r..m, 0..r), a.sub_block(r..m, r..n));
            let ainvb = aa.solve_triangular(upper, &b).expect("generator made a unit diagonal");
            let want = d.sub(&c.mul(&ainvb));
            let (s, fs, bs, ft, bt) = (spmat_to_dm(s), spmat_to_dm(fs), spmat_to_dm(bs), spmat_to_dm(ft), spmat_to_dm(bt));
            if s != want { return Some(Violation::new("schur-wrong", "S != D - C*A^-1*B".to_string())); }
            if (fs.rows, fs.cols, bs.rows, bs.cols) != (n - r, n, n, n - r) || (ft.rows, ft.cols, bt.rows, bt.cols) != (m - r, m, m, m - r) {
                return Some(Violation::new("schur-trans-shape", "transfer maps have the wrong shapes".to_string()));
            }
            if ft.mul(&a).mul(&bs) != s { return Some(Violation::new("schur-trans-wrong", "F_tgt*M*B_src != S".to_string())); }
            if !fs.mul(&bs).is_id() { return Some(Violation::new("schur-trans-wrong", "F_src*B_src != I".to_string())); }
            if !ft.mul(&bt).is_id() { return Some(Violation::new("schur-trans-wrong", "F_tgt*B_tgt != I".to_string())); }
            None
        }
        ("decomp", Out::Decomp(p, q, blocks, permuted)) => {
            let (m, n) = (a.rows, a.cols);
            let is_perm = |v: &Vec<usize>, k: usize| { let mut s = v.clone(); s.sort(); s == (0..k).collect::<Vec<_>>() };
            if !is_perm(p, m) || !is_perm(q, n) { return Some(Violation::new("decomp-not-permutation", format!("p={p:?} q={q:?}"))); }
            // reference permutation: B[p(i)][q(j)] = a[i][j]
            let mut bref = DM::zero(m, n);
            for i in 0..m { for j in 0..n { bref.set(p[i], q[j], a.get(i, j).clone()); } }
            if spmat_to_dm(permuted) != bref { return Some(Violation::new("decomp-permute-mismatch", "a.permute(p,q) differs from the definition".to_string())); }
            let mut sum = DM::zero(m, n);
            let (mut r0, mut c0) = (0, 0);
            for blk in blocks {
                let bd = spmat_to_dm(blk);
                if r0 + bd.rows > m || c0 + bd.cols > n { return Some(Violation::new("decomp-blocks-too-large", "blocks exceed the matrix".to_string())); }
                for i in 0..bd.rows { for j in 0..bd.cols { sum.set(r0 + i, c0 + j, bd.get(i, j).clone()); } }
                r0 += bd.rows;
                c0 += bd.cols;
            }
            if sum != bref { return Some(Violation::new("decomp-not-block-diagonal", "permuted matrix != block-diagonal sum of the returned blocks (+ zero rows/cols)".to_string())); }
            if !has_stored_zero(&case["a"]) {
                let comps = components(&a);
                let single = blocks.len() == 1 && comps <= 1; // an all-zero/empty or connected matrix may come back whole
                if !single && blocks.len() != comps {
                    return Some(Violation::new("decomp-wrong-block-count", format!("{} blocks but {} connected components", blocks.len(), comps)));
                }
                for blk in blocks {
                    let bd = spmat_to_dm(blk);
                    if !single && components(&bd) != 1 {
                        return Some(Violation::new("decomp-block-splits-further", "a returned block is not connected".to_string()));
                    }
                }
            }
            None
        }
        _ => Some(Violation::new("harness:bad-case", "kind/output mismatch".to_string())),
    }
}

fn same_value<R: SimRing>(x: &Out<R>, y: &Out<R>) -> bool
where
    for<'x> &'x R: RingOps<R>,
{
    match (x, y) {
        (Out::Mat(a), Out::Mat(b)) => spmat_to_dm(a) == spmat_to_dm(b),
        (Out::Vec(a), Out::Vec(b)) => a.to_dense().iter().map(|r| r.to_ref()).collect::<Vec<_>>() == b.to_dense().iter().map(|r| r.to_ref()).collect::<Vec<_>>(),
        (Out::Schur(a1, a2, a3, a4, a5), Out::Schur(b1, b2, b3, b4, b5)) => {
            [(a1, b1), (a2, b2), (a3, b3), (a4, b4), (a5, b5)].iter().all(|(a, b)| spmat_to_dm(a) == spmat_to_dm(b))
        }
        (Out::Decomp(p1, q1, s1, _), Out::Decomp(p2, q2, s2, _)) => {
            p1 == p2 && q1 == q2 && s1.len() == s2.len() && s1.iter().zip(s2).all(|(a, b)| spmat_to_dm(a) == spmat_to_dm(b))
        }
        _ => false,
    }
}

fn digest_out<R: SimRing>(o: &Out<R>) -> u64
where
    for<'x> &'x R: RingOps<R>,
{
    let mut d = 0u64;
    let mut eat = |m: &SpMat<R>| {
        for (i, j, r) in m.iter() {
            d = rt::mix(d, ((i as u64) << 32) | j as u64);
            for b in format!("{:?}", r.to_ref()).bytes() { d = d.wrapping_mul(31).wrapping_add(b as u64); }
        }
    };
    match o {
        Out::Mat(a) => eat(a),
        Out::Vec(v) => eat(&v.clone().into_mat()),
        Out::Schur(a, b, c, e, f) => { for m in [a, b, c, e, f] { eat(m) } }
        Out::Decomp(_, _, s, b) => { for m in s { eat(m) } eat(b) }
    }
    d
}

fn run_typed<R: SimRing>(case: &Value, ex: &mut Executor) -> RunReport
where
    for<'x> &'x R: RingOps<R>,
{
    let mut rep = RunReport::default();
    rep.outcome_class = case["kind"].as_str().unwrap().to_string();
    let c1 = case.clone();
    let one = ex.exec(Some(one_worker()), rt::fs::Disk::default(), move || run_sut::<R>(&c1));
    let c2 = case.clone();
    let many = ex.exec(None, rt::fs::Disk::default(), move || run_sut::<R>(&c2));
    let st = ex.stats.last().cloned().unwrap_or_default();
    rep.nontrivial = st.par_items >= 2 && st.max_workers_used >= 2;
    rep.counters.insert("tls_reuse_runs".into(), (st.tls_reuse > 0) as u64);
    rep.counters.insert("multi_worker_runs".into(), (st.max_workers_used >= 2) as u64);
    rep.counters.insert(format!("kind:{}", rep.outcome_class), 1);
    let (one, many) = match (one, many) {
        (Err(a), _) | (_, Err(a)) => {
            let v = abort_to_violation(&a);
            if is_machine_overflow(&v) && matches!(R::NAME, "Z" | "Q" | "ZH" | "ZI") {
                rep.counters.insert("machine_overflow_skipped".into(), 1);
                rep.outcome_class += "/overflow";
            } else {
                rep.violation = Some(v);
                rep.outcome_class += "/abort";
            }
            return rep;
        }
        (Ok(a), Ok(b)) => (a, b),
    };
    rep.outcome_digest = digest_out(&many);
    rep.violation = oracle::<R>(case, &one)
        .map(|v| Violation::new(&v.class, format!("[1 worker] {}", v.message)))
        .or_else(|| oracle::<R>(case, &many))
        .or_else(|| (!same_value(&one, &many)).then(|| Violation::new("one-vs-many-differ", "result on one worker differs from result on many".to_string())));
    rep
}

impl Check for C12 {
    fn id(&self) -> &'static str { "C12" }
    fn rule(&self) -> String {
        "one run = one kernel call (solve_triangular / _left / inv / _vec, Schur::from_partial_triangular with transfer maps, dir_sum_decomp) on a generated valid input (upper/lower, n 0..20, r = 0..min(m,n), unit diagonals other than 1 over Q/F3/Z[i], stored zeros, right-hand sides with columns of very different sparsity, block-diagonal matrices hidden under permutations), executed twice in simulation: on 1 worker and on the drawn configuration (1..16 workers, pick-up policy, one-item-per-worker / all-on-one buggify, scheduler strategy, hash seeds). distinct = distinct event-log digests; non-trivial = the parallel call had >= 2 items on >= 2 workers".into()
    }
    fn assumptions(&self) -> Vec<String> {
        vec![
            "rayon executor semantics modelled by the shim; a worker keeps its thread-local slot for all items it handles within one parallel call".into(),
            "re-entrant work stealing while a worker waits on a nested parallel call is modelled as 'worker blocks' (no site holds a thread-local borrow across a nested call)".into(),
            "inputs satisfy the precondition (unit diagonal, leading block triangular); magnitudes are bounded by the generator so that machine integers cannot overflow".into(),
        ]
    }
    fn required_probes(&self) -> Vec<&'static str> {
        vec!["tls_reuse_runs", "multi_worker_runs", "kind:solve", "kind:schur", "kind:decomp"]
    }
    fn max_steps(&self) -> usize { 400_000 }
    fn runs(&self, tier: &str) -> u64 { if tier == "quick" { 40_000 } else { 1_500_000 } }
    fn gen_case(&self, rng: &mut Rng, _idx: u64, _tier: &str) -> Value { gen_case_inner(rng) }
    fn run_case(&self, case: &Value, ex: &mut Executor) -> RunReport {
        let ring = case["ring"].as_str().unwrap();
        crate::dispatch_ring!(ring, run_typed, case, ex)
    }
    fn shrink_case(&self, case: &Value) -> Vec<Value> {
        let mut out = vec![];
        // dropping right-hand-side columns / entries keeps the input valid for every kind
        if case["y"].is_object() {
            let y = &case["y"];
            let (m, n) = (y["m"].as_u64().unwrap(), y["n"].as_u64().unwrap());
            let es = y["entries"].as_array().unwrap();
            let by_col = case["kind"] != "solve_left";
            let lim = if by_col { n } else { m };
            for c in (0..lim).rev() {
                let idx = if by_col { 1 } else { 0 };
                let e2: Vec<Value> = es.iter().filter(|e| e[idx].as_u64().unwrap() != c).map(|e| {
                    let mut e = e.clone();
                    let v = e[idx].as_u64().unwrap();
                    if v > c { e[idx] = json!(v - 1); }
                    e
                }).collect();
                let mut c2 = case.clone();
                c2["y"] = if by_col { json!({"m": m, "n": n - 1, "entries": e2}) } else { json!({"m": m - 1, "n": n, "entries": e2}) };
                if case["kind"] == "solve_vec" { continue; }
                out.push(c2);
            }
            for k in 0..es.len() {
                let mut e2 = es.clone();
                e2.remove(k);
                let mut c2 = case.clone();
                c2["y"]["entries"] = json!(e2);
                out.push(c2);
            }
        }
        if case["kind"] == "decomp" {
            for a in matgen::shrink_matrix(&case["a"]) {
                let mut c2 = case.clone();
                c2["a"] = a;
                out.push(c2);
            }
        } else {
            // off-diagonal entries of the matrix can always go
            let es = case["a"]["entries"].as_array().unwrap();
            for k in 0..es.len() {
                if es[k][0] == es[k][1] { continue; }
                let mut e2 = es.clone();
                e2.remove(k);
                let mut c2 = case.clone();
                c2["a"]["entries"] = json!(e2);
                out.push(c2);
            }
        }
        out
    }
}
