//! C06 — canonical (Lee) classes and the s-type invariant behave as knot invariants.
//!
//! Canonical cycles are transported through every delooping / elimination step (hash-order
//! dependent) and the invariant reads their coordinates in a homology basis that depends on the
//! reducer's pivots (schedule dependent): the integer must come out the same on every path.

use std::collections::BTreeMap;

use refmodel::link::Diagram;
use refmodel::{RefRing, DM, Q};
use serde_json::{json, Value};
use yui::poly::Poly;
use yui::{EucRing, EucRingOps, FF, Ratio};
use yui_homology::{GridTrait, SummandTrait};
use yui_kh::kh::{ss_invariant, KhComplex, KhHomology};
use yui_verif_rt as rt;
use yui_verif_rt::Rng;

use crate::c05::{check_complex, snapshot, Snapshot};
use crate::diag::{self, pd_from_json, pd_to_json, Pd};
use crate::diagrams::TABLE;
use crate::framework::*;
use crate::khcommon::link_of;

pub struct C06;

struct Out {
    /// (label, snapshot of the complex with canonical cycles) over Z with h = 1, 2, 3 (t = 0)
    complexes: Vec<(String, i64, Snapshot<refmodel::Z>, Vec<bool>)>,
    /// (label, total rank, is free)
    lee: Vec<(String, usize, bool)>,
    /// ss values: (label, value)
    ss: Vec<(String, i32)>,
}

fn ss_for(ring: &str, l: &yui_link::Link, reduced: bool) -> i32 {
    fn go<R: EucRing>(l: &yui_link::Link, c: R, reduced: bool) -> i32 where for<'x> &'x R: EucRingOps<R> { ss_invariant(l, &c, reduced) }
    match ring {
        "Z,2" => go::<i64>(l, 2, reduced),
        "Z,3" => go::<i64>(l, 3, reduced),
        "F2[H]" => go(l, Poly::<'H', FF<2>>::variable(), reduced),
        "F3[H]" => go(l, Poly::<'H', FF<3>>::variable(), reduced),
        "Q[H]" => go(l, Poly::<'H', Ratio<i64>>::variable(), reduced),
        other => panic!("ss ring {other}"),
    }
}

fn run_sut(case: &Value) -> Out {
    let pd = pd_from_json(&case["pd"]);
    let l = if case["mirror_api"].as_bool().unwrap_or(false) { link_of(&pd).mirror() } else { link_of(&pd) };
    let knot = case["knot"].as_bool().unwrap();
    let mut out = Out { complexes: vec![], lee: vec![], ss: vec![] };
    let h = case["h"].as_i64().unwrap();
    for reduced in [false, true] {
        if !knot && reduced { continue; }
        let c = KhComplex::<i64>::new(&l, &h, &0, reduced);
        // the library's own view: d(0, z) must be reported as the zero chain
        let dz_zero = c.canon_cycles().iter().map(|z| { use yui_kh::kh::KhChainExt; use num_traits::Zero; c.d(z.h_deg(), z).is_zero() }).collect();
        out.complexes.push((format!("h={h},reduced={reduced}"), h, snapshot(&c), dz_zero));
    }
    // (h,t) = (1,0) over Z and (0,1) over Q: free of total rank 2^components
    let bn = KhHomology::<i64>::new(&l, &1, &0, false);
    out.lee.push(("(1,0)/Z".into(), bn.support().map(|i| bn[i].rank()).sum(), bn.support().all(|i| bn[i].is_free())));
    let lee = KhHomology::<Ratio<i64>>::new(&l, &Ratio::new(0, 1), &Ratio::new(1, 1), false);
    out.lee.push(("(0,1)/Q".into(), lee.support().map(|i| lee[i].rank()).sum(), lee.support().all(|i| lee[i].is_free())));
    if knot {
        let ring = case["ss_ring"].as_str().unwrap();
        out.ss.push(("D,unreduced".into(), ss_for(ring, &l, false)));
        out.ss.push(("D,reduced".into(), ss_for(ring, &l, true)));
        if let Some(pd2) = case.get("pd_switched").filter(|v| v.is_array()) {
            // the crossing change either as a rewritten PD code or through the library's own
            // `Crossing::mirror` on the link object
            let l2 = match case["switch_api"].as_u64() {
                Some(k) => yui_link::Link::new(l.data().iter().enumerate().map(|(i, x)| if i as u64 == k { x.mirror() } else { x.clone() }).collect()),
                None => link_of(&pd_from_json(pd2)),
            };
            out.ss.push(("D',reduced".into(), ss_for(ring, &l2, true)));
        }
    }
    out
}

fn oracle(case: &Value, out: &Out, components: usize) -> Option<Violation> {
    for (label, h, s, dz_zero) in &out.complexes {
        if let Some(v) = check_complex(s, (false, false), *h, 0) {
            return Some(Violation::new(&v.class, format!("[{label}] {}", v.message)));
        }
        if let Some(i) = dz_zero.iter().position(|z| !z) {
            return Some(Violation::new("canon-cycle-d-not-reported-zero", format!("[{label}] KhComplex::d(0, z).is_zero() is false for canonical cycle {i}")));
        }
        let k0 = s.degrees.iter().position(|&d| d == 0);
        let want = if label.ends_with("true") { 1 } else { 2usize.pow(components as u32) };
        if s.canon.len() != want && components == 1 {
            return Some(Violation::new("canon-cycle-count", format!("[{label}] {} canonical cycles, expected {want}", s.canon.len())));
        }
        for (i, (hd, z, is_zero)) in s.canon.iter().enumerate() {
            if *hd != 0 { return Some(Violation::new("canon-cycle-degree", format!("[{label}] canonical cycle {i} has homological degree {hd}"))); }
            if *is_zero { return Some(Violation::new("canon-cycle-zero", format!("[{label}] canonical cycle {i} is zero"))); }
            let Some(k0) = k0 else { return Some(Violation::new("canon-cycle-degree", format!("[{label}] complex has no degree 0"))) };
            // d z = 0
            if s.d[k0].cols == z.rows && !s.d[k0].mul(z).is_zero() {
                return Some(Violation::new("canon-cycle-not-closed", format!("[{label}] d(z) != 0 for canonical cycle {i}")));
            }
            // non-torsion for h != 0: z is not a rational combination of boundaries
            if *h != 0 && k0 > 0 {
                let to_q = |m: &DM<refmodel::Poly2<refmodel::Z>>| -> DM<Q> {
                    m.map(|p| { let v = p.eval(&refmodel::Z::from_i64(*h), &refmodel::Z::zero()); Q::new(v.0, 1.into()) })
                };
                let b = to_q(&s.d[k0 - 1]);
                let zq = to_q(z);
                let mut aug = DM::<Q>::zero(b.rows, b.cols + 1);
                for r in 0..b.rows { for c in 0..b.cols { aug.set(r, c, b.get(r, c).clone()); } aug.set(r, b.cols, zq.get(r, 0).clone()); }
                if aug.rank_field() == b.rank_field() {
                    return Some(Violation::new("canon-class-torsion", format!("[{label}] a multiple of canonical cycle {i} is a boundary although h = {h} != 0")));
                }
            } else if *h != 0 && z.is_zero() {
                return Some(Violation::new("canon-cycle-zero", format!("[{label}] canonical cycle {i} vanishes")));
            }
        }
    }
    for (label, rank, free) in &out.lee {
        if !free { return Some(Violation::new("lee-homology-torsion", format!("homology with (h,t)={label} has torsion"))); }
        if *rank != 2usize.pow(components as u32) {
            return Some(Violation::new("lee-homology-rank", format!("homology with (h,t)={label} has total rank {rank}, expected 2^{components}")));
        }
    }
    let ss: BTreeMap<&str, i32> = out.ss.iter().map(|(k, v)| (k.as_str(), *v)).collect();
    if let (Some(u), Some(r)) = (ss.get("D,unreduced"), ss.get("D,reduced")) {
        if u != r { return Some(Violation::new("ss-reduced-vs-unreduced", format!("ss = {u} (unreduced) but {r} (reduced), c = {}", case["ss_ring"]))); }
    }
    if let (Some(d), Some(d2)) = (ss.get("D,reduced"), ss.get("D',reduced")) {
        // sign of the switched crossing in D
        let positive = case["switched_sign"].as_i64().unwrap() > 0;
        let (plus, minus) = if positive { (*d, *d2) } else { (*d2, *d) };
        if !(minus <= plus && plus <= minus + 2) {
            return Some(Violation::new("ss-crossing-change", format!("ss(K+) = {plus}, ss(K-) = {minus} violates ss(K-) <= ss(K+) <= ss(K-)+2 (c = {})", case["ss_ring"])));
        }
    }
    None
}

impl Check for C06 {
    fn id(&self) -> &'static str { "C06" }
    fn rule(&self) -> String {
        "one run = one diagram (table knots up to 9 crossings and mirrors, R1-kinked, braid closures; links for the rank statement) with a random crossing order; ONE simulated execution builds the Z-complexes with (h,0), h in {1,2,3}, reduced and unreduced (canonical cycles: degree 0, own d(z)=0, own rational rank test for non-torsion), the homologies with (1,0)/Z and (0,1)/Q (free, total rank 2^components), and for knots ss(D) reduced and unreduced plus ss of the diagram with one crossing switched, for c drawn from {2, 3 over Z; H over F2[H], F3[H], Q[H]}. Cross-run: ss is constant over all runs of one knot (orders, kinks, schedules, hash orders, worker counts) and negates under mirroring. distinct = distinct event-log digests; non-trivial = knot runs (ss computed)".into()
    }
    fn assumptions(&self) -> Vec<String> {
        vec![
            "rayon executor semantics modelled by the shim".into(),
            "diagram independence is sampled through crossing reorderings, R1 kinks and mirrors of table diagrams (not through arbitrary isotopies)".into(),
            "the crossing-change inequality is checked for one crossing per run".into(),
            "an arithmetic-overflow panic of i64 / Ratio<i64> arithmetic is counted (machine_overflow_skipped) but not reported".into(),
        ]
    }
    fn required_probes(&self) -> Vec<&'static str> { vec!["knot_runs", "link_runs", "crossing_change_checked"] }
    fn max_steps(&self) -> usize { 50_000_000 }
    fn runs(&self, tier: &str) -> u64 { if tier == "quick" { 6_000 } else { 500_000 } }
    fn gen_case(&self, rng: &mut Rng, _idx: u64, tier: &str) -> Value {
        let max_x = if tier == "quick" { 8 } else { 10 };
        // knots from the table (so that runs of the same knot meet in the cross-run check)
        let knots: Vec<&(&str, &[[u32; 4]])> = TABLE.iter().filter(|(n, pd)| !n.starts_with('L') && pd.len() <= max_x).collect();
        let (name, mut pd): (String, Pd) = if rng.chance(4, 5) {
            let (n, pd) = **rng.pick(&knots);
            (n.to_string(), pd.to_vec())
        } else {
            diag::draw(rng, max_x)
        };
        let mut name = name;
        let mut mirror_api = false;
        let from_table = knots.iter().any(|(n, _)| *n == name);
        if from_table {
            // mirrored knots: half through an own mirrored PD code, half through `Link::mirror()`
            if rng.chance(1, 2) {
                name += "m";
                if rng.chance(1, 2) { pd = diag::mirror(&pd); } else { mirror_api = true; }
            }
            if rng.chance(1, 4) {
                let es = Diagram::from_pd(&pd).edges();
                pd = diag::add_kink(&pd, *rng.pick(&es), rng.below(4) as u32);
            }
        }
        let pd = diag::permute_crossings(rng, &pd);
        // orientation data always refers to the diagram the library finally computes on
        let eff = if mirror_api { diag::mirror(&pd) } else { pd.clone() };
        let o = Diagram::from_pd(&eff).orientation().unwrap();
        let knot = o.components == 1 && !pd.is_empty();
        let mut case = json!({ "name": name, "group": if from_table { json!(name) } else { json!(null) }, "pd": pd_to_json(&pd), "mirror_api": mirror_api, "knot": knot,
            "h": *rng.pick(&[1i64, 2, 3]), "ss_ring": *rng.pick(&["Z,2", "Z,3", "F2[H]", "F3[H]", "Q[H]"]) });
        if knot && rng.chance(2, 3) {
            let k = rng.below(pd.len() as u64) as usize;
            // the switched diagram is given as a plain PD code of the effective (mirrored) diagram
            let sw = Diagram::from_pd(&eff).switch_crossing(k).pd();
            case["pd_switched"] = pd_to_json(&sw);
            case["switched_sign"] = json!(o.signs[k]);
            if rng.chance(1, 2) { case["switch_api"] = json!(k); }
        }
        case
    }
    fn run_case(&self, case: &Value, ex: &mut Executor) -> RunReport {
        let mut rep = RunReport::default();
        let c1 = case.clone();
        let res = ex.exec(None, rt::fs::Disk::default(), move || run_sut(&c1));
        let knot = case["knot"].as_bool().unwrap();
        rep.nontrivial = knot;
        rep.counters.insert(if knot { "knot_runs" } else { "link_runs" }.into(), 1);
        match res {
            Err(a) => {
                let v = abort_to_violation(&a);
                if is_machine_overflow(&v) {
                    rep.counters.insert("machine_overflow_skipped".into(), 1);
                    rep.outcome_class = "overflow".into();
                } else {
                    rep.violation = Some(v);
                    rep.outcome_class = "abort".into();
                }
            }
            Ok(out) => {
                let pd = pd_from_json(&case["pd"]);
                let comps = Diagram::from_pd(&pd).orientation().unwrap().components;
                if case["mirror_api"].as_bool().unwrap_or(false) { rep.counters.insert("mirror_via_api".into(), 1); }
                if out.ss.len() == 3 { rep.counters.insert("crossing_change_checked".into(), 1); }
                if case["switch_api"].is_u64() { rep.counters.insert("crossing_change_via_api".into(), 1); }
                rep.outcome_class = out.ss.first().map(|(_, v)| format!("ss={v}")).unwrap_or("link".into());
                rep.detail = out.ss.first().map(|(_, v)| format!("{}:{v}", case["ss_ring"].as_str().unwrap())).unwrap_or_default();
                rep.outcome_digest = out.ss.iter().fold(7u64, |d, (_, v)| rt::mix(d, *v as u64));
                rep.violation = oracle(case, &out, comps);
            }
        }
        rep
    }
    fn has_cross_check(&self) -> bool { true }
    fn cross_check(&self, runs: &[(u64, Value, RunReport)]) -> Vec<(u64, Violation)> {
        // ss is a knot invariant: constant per (knot, c) over all diagrams / paths, negated by mirroring
        let mut seen: BTreeMap<(String, String), (u64, i32)> = BTreeMap::new();
        let mut out = vec![];
        for (idx, case, rep) in runs {
            let (Some(g), false) = (case["group"].as_str(), rep.detail.is_empty()) else { continue };
            if rep.violation.is_some() { continue; }
            let (ring, v) = rep.detail.split_once(':').unwrap();
            let v: i32 = v.parse().unwrap();
            // normalise to the unmirrored knot
            let (base, val) = match g.strip_suffix('m') { Some(b) => (b.to_string(), -v), None => (g.to_string(), v) };
            match seen.get(&(base.clone(), ring.to_string())) {
                None => { seen.insert((base, ring.to_string()), (*idx, val)); }
                Some((i0, v0)) => if *v0 != val {
                    out.push((*idx, Violation::new("ss-not-an-invariant", format!("knot {base}, c={ring}: run {idx} gives {val} (after mirror normalisation) but run {i0} gave {v0}"))));
                }
            }
        }
        out
    }
}
