//! Shared machinery of the Khovanov-level checks (C01, C03, C05, C06): coefficient rings of the
//! system under test, translation of its answers into isomorphism types, and the cached reference.

use std::collections::BTreeMap;
use std::sync::{Arc, Mutex, OnceLock};

use num_bigint::BigInt;
use refmodel::dense::IsoType;
use refmodel::kh::Cube;
use refmodel::link::Diagram;
use yui::{EucRing, EucRingOps, FF, Ratio};
use yui_homology::{GridTrait, SummandTrait};
use yui_kh::kh::{KhComplexBigraded, KhHomology, KhHomologyBigraded};
use yui_link::Link;

use crate::diag::Pd;

pub trait KhRing: EucRing + Send + Sync + 'static
where
    for<'x> &'x Self: EucRingOps<Self>,
{
    const NAME: &'static str;
    /// None: Z;  Some(0): Q;  Some(p): F_p
    const MODULUS: Option<u32>;
    fn from_int(x: i64) -> Self;
    /// order of a torsion summand R/(a)
    fn order(a: &Self) -> BigInt;
}

impl KhRing for i64 {
    const NAME: &'static str = "Z";
    const MODULUS: Option<u32> = None;
    fn from_int(x: i64) -> Self { x }
    fn order(a: &Self) -> BigInt { BigInt::from(*a) }
}
impl KhRing for BigInt {
    const NAME: &'static str = "ZB";
    const MODULUS: Option<u32> = None;
    fn from_int(x: i64) -> Self { BigInt::from(x) }
    fn order(a: &Self) -> BigInt { a.clone() }
}
impl KhRing for Ratio<i64> {
    const NAME: &'static str = "Q";
    const MODULUS: Option<u32> = Some(0);
    fn from_int(x: i64) -> Self { Ratio::new(x, 1) }
    fn order(_: &Self) -> BigInt { panic!("torsion over a field") }
}
impl KhRing for FF<2> {
    const NAME: &'static str = "F2";
    const MODULUS: Option<u32> = Some(2);
    fn from_int(x: i64) -> Self { FF::<2>::new(x.rem_euclid(2) as i32) }
    fn order(_: &Self) -> BigInt { panic!("torsion over a field") }
}
impl KhRing for FF<3> {
    const NAME: &'static str = "F3";
    const MODULUS: Option<u32> = Some(3);
    fn from_int(x: i64) -> Self { FF::<3>::new(x.rem_euclid(3) as i32) }
    fn order(_: &Self) -> BigInt { panic!("torsion over a field") }
}

pub fn link_of(pd: &Pd) -> Link {
    Link::from_pd_code(pd.iter().map(|x| [x[0] as usize, x[1] as usize, x[2] as usize, x[3] as usize]))
}

pub type Graded = BTreeMap<i32, IsoType>;
pub type Bigraded = BTreeMap<(i32, i32), IsoType>;

fn iso_of<R: KhRing>(rank: usize, tors: &[R]) -> Result<IsoType, String>
where
    for<'x> &'x R: EucRingOps<R>,
{
    if R::MODULUS.is_some() {
        if !tors.is_empty() {
            return Err("torsion reported over a field".into());
        }
        return Ok(IsoType::free(rank));
    }
    let orders: Vec<BigInt> = tors.iter().map(|t| R::order(t)).collect();
    if orders.iter().any(|o| o == &BigInt::from(0) || o == &BigInt::from(1) || o == &BigInt::from(-1)) {
        return Err(format!("degenerate torsion coefficient in {orders:?}"));
    }
    Ok(IsoType::from_orders(rank, orders))
}

pub fn graded_of<R: KhRing>(h: &KhHomology<R>) -> Result<Graded, String>
where
    for<'x> &'x R: EucRingOps<R>,
{
    let mut out = Graded::new();
    for i in h.support() {
        let s = &h[i];
        let t = iso_of::<R>(s.rank(), s.tors())?;
        if !t.is_zero() {
            out.insert(i as i32, t);
        }
    }
    Ok(out)
}

pub fn bigraded_of<R: KhRing>(h: &KhHomologyBigraded<R>) -> Result<Bigraded, String>
where
    for<'x> &'x R: EucRingOps<R>,
{
    let mut out = Bigraded::new();
    for idx in h.support() {
        let s = &h[(idx.0, idx.1)];
        let t = iso_of::<R>(s.rank(), s.tors())?;
        if !t.is_zero() {
            out.insert((idx.0 as i32, idx.1 as i32), t);
        }
    }
    Ok(out)
}

pub fn bigraded_via_complex<R: KhRing>(l: &Link, reduced: bool) -> Result<Bigraded, String>
where
    for<'x> &'x R: EucRingOps<R>,
{
    let c = KhComplexBigraded::<R>::new(l, &R::zero(), &R::zero(), reduced);
    bigraded_of(&c.homology())
}

pub fn describe_graded(g: &Graded) -> String {
    g.iter().map(|(i, t)| format!("{i}:{}", t.describe())).collect::<Vec<_>>().join(" ")
}

pub fn describe_bigraded(g: &Bigraded) -> String {
    g.iter().map(|((i, j), t)| format!("({i},{j}):{}", t.describe())).collect::<Vec<_>>().join(" ")
}

// ---------------------------------------------------------------------------------------------
// cached reference
// ---------------------------------------------------------------------------------------------

#[derive(Clone, Debug)]
pub struct RefKh {
    pub graded: Graded,
    pub bigraded: Option<Bigraded>,
    pub components: usize,
    pub orientation_ambiguous: bool,
    pub n_plus: usize,
    pub n_minus: usize,
}

type Key = (Pd, i64, i64, bool, Option<u32>);

fn cache() -> &'static Mutex<BTreeMap<Key, Arc<RefKh>>> {
    static C: OnceLock<Mutex<BTreeMap<Key, Arc<RefKh>>>> = OnceLock::new();
    C.get_or_init(|| Mutex::new(BTreeMap::new()))
}

/// base point used by the reduced theory: smallest edge label of the first listed crossing
/// (the library's documented choice, `Link::first_edge`)
pub fn base_edge(pd: &Pd) -> Option<u32> {
    pd.first().map(|x| *x.iter().min().unwrap())
}

/// The reference is invariant under reordering the crossing list, so the cache key uses the
/// sorted list (and remembers the base edge, which is not).
pub fn reference(pd: &Pd, h: i64, t: i64, reduced: bool, modulus: Option<u32>) -> Arc<RefKh> {
    let mut key_pd = pd.clone();
    key_pd.sort();
    let base = if reduced { base_edge(pd) } else { None };
    // the base edge matters only through the component it lies on; keep it in the key verbatim
    let mut key_pd2 = key_pd.clone();
    if let Some(b) = base {
        key_pd2.push([b, u32::MAX, u32::MAX, u32::MAX]);
    }
    let key: Key = (key_pd2, h, t, reduced, modulus);
    if let Some(r) = cache().lock().unwrap().get(&key) {
        return r.clone();
    }
    let dg = Diagram::from_pd(&key_pd);
    let cube = Cube::new(&dg, h, t, reduced, base).expect("workload diagrams are valid");
    let graded = cube.homology(modulus);
    let bigraded = (h == 0 && t == 0).then(|| cube.homology_bigraded(modulus));
    let r = Arc::new(RefKh {
        graded,
        bigraded,
        components: cube.components,
        orientation_ambiguous: cube.orientation_ambiguous,
        n_plus: cube.n_plus,
        n_minus: cube.n_minus,
    });
    let mut c = cache().lock().unwrap();
    if c.len() > 20_000 {
        c.clear();
    }
    c.insert(key, r.clone());
    r
}

/// All admissible references: one per orientation of the components that never pass under a
/// crossing (the library may orient those either way; every other sign is forced).
pub fn references(pd: &Pd, h: i64, t: i64, reduced: bool, modulus: Option<u32>) -> Vec<Arc<RefKh>> {
    let first = reference(pd, h, t, reduced, modulus);
    if !first.orientation_ambiguous {
        return vec![first];
    }
    let mut key_pd = pd.clone();
    key_pd.sort();
    let dg = Diagram::from_pd(&key_pd);
    let amb = dg.orientation().expect("valid").ambiguous_comps.clone();
    let base = if reduced { base_edge(pd) } else { None };
    let mut out = vec![];
    for mask in 0..(1u32 << amb.len().min(4)) {
        let flips: Vec<usize> = amb.iter().enumerate().filter(|(k, _)| (mask >> k) & 1 == 1).map(|(_, c)| *c).collect();
        let cube = Cube::new_oriented(&dg, h, t, reduced, base, &flips).expect("valid");
        out.push(Arc::new(RefKh {
            graded: cube.homology(modulus),
            bigraded: (h == 0 && t == 0).then(|| cube.homology_bigraded(modulus)),
            components: cube.components,
            orientation_ambiguous: true,
            n_plus: cube.n_plus,
            n_minus: cube.n_minus,
        }));
    }
    out
}
