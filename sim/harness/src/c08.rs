//! C08 — chain reduction is a homotopy equivalence with correct transfer maps, for every pivot
//! strategy, shallow/deep, tracked vectors and every thread schedule.

use refmodel::dense::{homology_field, homology_z, IsoType};
use refmodel::{RefRing, DM};
use serde_json::{json, Value};
use yui::RingOps;
use yui_homology::utils::ChainReducer;
use yui_homology::{ChainComplexTrait, GenericChainComplex};
use yui_matrix::sparse::pivot::{PivotCondition, PivotType};
use yui_matrix::sparse::{SpMat, SpVec};
use yui_matrix::MatTrait;
use yui_verif_rt as rt;
use yui_verif_rt::Rng;

use crate::framework::*;
use crate::rings::*;

pub struct C08;

// ---------------------------------------------------------------------------------------------
// planted complexes in the reference domain
// ---------------------------------------------------------------------------------------------

/// random sparse unimodular matrix and its inverse, as a product of few elementary operations
fn unimodular<Rr: RefRing>(rng: &mut Rng, n: usize, ops: usize, small: &dyn Fn(&mut Rng) -> Rr) -> (DM<Rr>, DM<Rr>) {
    let mut p = DM::<Rr>::id(n);
    let mut pinv = DM::<Rr>::id(n);
    if n < 2 {
        return (p, pinv);
    }
    for _ in 0..ops {
        let i = rng.below(n as u64) as usize;
        let mut j = rng.below(n as u64) as usize;
        if i == j { j = (j + 1) % n; }
        // E = I + c e_i e_j^T ; p <- E p ; pinv <- pinv E^-1
        let c = small(rng);
        let mut e = DM::<Rr>::id(n);
        e.set(i, j, c.clone());
        let mut einv = DM::<Rr>::id(n);
        einv.set(i, j, c.neg());
        p = e.mul(&p);
        pinv = pinv.mul(&einv);
    }
    (p, pinv)
}

fn max_abs_ok<R: SimRing>(m: &DM<R::Ref>) -> bool
where
    for<'x> &'x R: RingOps<R>,
{
    // the conversion to JSON panics when a value leaves i64; keep well below that
    m.data.iter().all(|x| R::ref_weight(x) < 1e6 || R::NAME == "ZH")
}

fn gen_planted<R: SimRing>(rng: &mut Rng) -> Value
where
    for<'x> &'x R: RingOps<R>,
{
    // "dense" knob (fields only, where entries cannot grow): one short complex whose differential
    // is a dense matrix of rank 20-40 - the reducer then finds about one pivot per round and needs
    // dozens of rounds in one degree (long chains of transfer maps)
    let dense = R::Ref::is_field() && R::NAME != "Q" && rng.chance(1, 12);
    let len = if dense { 1 + rng.below(2) as usize } else { 1 + rng.below(6) as usize }; // degrees 0..=len, len differentials d_0..d_{len-1} (+ zero d_len)
    loop {
        // elementary summands: (deg, kind) kind 0: R at deg; 1: R -u-> R from deg to deg+1; 2: R -c-> R
        let mut ranks = vec![0usize; len + 1];
        let mut pairs: Vec<(usize, usize, usize, R::Ref)> = vec![]; // (deg, src idx, tgt idx, coeff)
        // size is a knob: one run in four is large enough for the parallel pivot phase to matter
        let nsum = if dense { 20 + rng.below(21) as usize } else if rng.chance(1, 4) { 12 + rng.below(30) as usize } else { 2 + rng.below(14) as usize };
        for _ in 0..nsum {
            let kind = if dense { 1 + rng.below(2) } else { rng.below(5) };
            let d = if dense { 0 } else { rng.below(len as u64 + 1) as usize };
            if kind == 0 || d == len {
                ranks[d] += 1;
            } else {
                let coeff = if kind <= 2 { R::ref_from_json(&R::gen(rng, 2)) } else { R::ref_from_json(&R::gen(rng, 3)) };
                if coeff.is_zero() {
                    ranks[d] += 1;
                    continue;
                }
                pairs.push((d, ranks[d], ranks[d + 1], coeff));
                ranks[d] += 1;
                ranks[d + 1] += 1;
            }
        }
        let mut ds: Vec<DM<R::Ref>> = (0..len).map(|i| DM::zero(ranks[i + 1], ranks[i])).collect();
        let mut is_src: Vec<Vec<bool>> = ranks.iter().map(|&r| vec![false; r]).collect();
        for (d, s, t, c) in pairs {
            ds[d].set(t, s, c);
            is_src[d][s] = true;
        }
        // conjugate by sparse unimodular matrices
        let small = |rng: &mut Rng| -> R::Ref {
            let v = R::ref_from_json(&R::gen(rng, 1));
            if rng.chance(1, 6) { v.add(&v) } else { v }
        };
        let mut ps = vec![];
        for i in 0..=len {
            let ops = if dense { ranks[i] * 6 } else if rng.chance(1, 6) { 0 } else if rng.chance(1, 3) { (ranks[i] as u64 * (2 + rng.below(3))) as usize } else { (ranks[i] as u64 * (1 + rng.below(3)) / 2) as usize };
            ps.push(unimodular::<R::Ref>(rng, ranks[i], ops, &small));
        }
        let ds: Vec<DM<R::Ref>> = (0..len).map(|i| ps[i + 1].0.mul(&ds[i]).mul(&ps[i].1)).collect();
        if !ds.iter().all(|d| max_abs_ok::<R>(d)) {
            continue;
        }
        debug_assert!((0..len.saturating_sub(1)).all(|i| ds[i + 1].mul(&ds[i]).is_zero()));
        let mut mats: Vec<Value> = ds.iter().map(|d| dm_to_json::<R>(d)).collect();
        mats.push(json!({ "m": 0, "n": ranks[len], "entries": [] }));
        // tracked vectors
        let mut vecs = vec![];
        for _ in 0..rng.below(4) {
            let d = rng.below(len as u64 + 1) as usize;
            if ranks[d] == 0 { continue; }
            let mut es = vec![];
            if rng.chance(1, 2) {
                // a planted cycle (a combination of basis vectors on which the planted differential
                // vanishes, carried to the conjugated basis): classes that are zero, torsion or free
                let mut z = DM::<R::Ref>::zero(ranks[d], 1);
                for k in 0..ranks[d] {
                    if !is_src[d][k] && rng.chance(1, 3) { z.set(k, 0, small(rng)); }
                }
                let z = ps[d].0.mul(&z);
                if !max_abs_ok::<R>(&z) { continue; }
                for k in 0..ranks[d] {
                    if !z.get(k, 0).is_zero() { es.push(json!([k, R::ref_to_json(z.get(k, 0))])); }
                }
            } else {
                for k in 0..ranks[d] {
                    if rng.chance(1, 3) {
                        es.push(json!([k, R::gen(rng, 1)]));
                    }
                }
            }
            vecs.push(json!([d, es]));
        }
        // what to do
        let mode = if dense { *rng.pick(&["reduce", "reduced"]) } else { *rng.pick(&["reduce", "reduce", "steps", "steps", "reduced"]) };
        let mut steps = vec![];
        if mode == "steps" {
            for _ in 0..(1 + rng.below(8)) {
                let i = rng.below(len as u64 + 1);
                let pt = if rng.chance(1, 2) { "Rows" } else { "Cols" };
                let (pc, w) = match rng.below(3) { 0 => ("One", 0.0), 1 => ("AnyUnit", 0.0), _ => ("Weight", *rng.pick(&[1.0, 2.0, 4.0])) };
                steps.push(json!([i, pt, pc, w]));
            }
        }
        let mut case = json!({ "ring": R::NAME, "len": len, "mats": mats, "vecs": vecs, "mode": mode, "steps": steps, "with_trans": mode != "steps" || rng.chance(3, 4) });
        // one run in five tracks the transfer maps in a random subset of the degrees only
        if mode != "reduced" && case["with_trans"] == true && rng.chance(1, 5) {
            let mask: Vec<bool> = (0..len + 2).map(|_| rng.chance(1, 2)).collect();
            case["trans_mask"] = json!(mask);
        }
        return case;
    }
}

fn gen_simplicial<R: SimRing>(rng: &mut Rng) -> Value
where
    for<'x> &'x R: RingOps<R>,
{
    // random 2-dimensional simplicial complex: d_0: C_0(triangles) -> C_1(edges) -> C_2(vertices)
    let v = 4 + rng.below(4) as usize;
    let mut tris = vec![];
    for a in 0..v { for b in (a + 1)..v { for c in (b + 1)..v { if rng.chance(2, 5) { tris.push((a, b, c)); } } } }
    tris.truncate(14);
    let mut edges: Vec<(usize, usize)> = vec![];
    for &(a, b, c) in &tris { for e in [(a, b), (a, c), (b, c)] { if !edges.contains(&e) { edges.push(e); } } }
    for a in 0..v { for b in (a + 1)..v { if rng.chance(1, 6) && !edges.contains(&(a, b)) { edges.push((a, b)); } } }
    let one = R::Ref::one();
    let mut d0 = DM::<R::Ref>::zero(edges.len(), tris.len());
    for (t, &(a, b, c)) in tris.iter().enumerate() {
        let pos = |e: (usize, usize)| edges.iter().position(|&x| x == e).unwrap();
        d0.set(pos((b, c)), t, one.clone());
        d0.set(pos((a, c)), t, one.neg());
        d0.set(pos((a, b)), t, one.clone());
    }
    let mut d1 = DM::<R::Ref>::zero(v, edges.len());
    for (k, &(a, b)) in edges.iter().enumerate() {
        d1.set(b, k, one.clone());
        d1.set(a, k, one.neg());
    }
    let mats = vec![dm_to_json::<R>(&d0), dm_to_json::<R>(&d1), json!({ "m": 0, "n": v, "entries": [] })];
    let mode = *rng.pick(&["reduce", "steps", "reduced"]);
    let mut steps = vec![];
    if mode == "steps" {
        for _ in 0..(1 + rng.below(6)) {
            steps.push(json!([rng.below(3), if rng.chance(1, 2) { "Rows" } else { "Cols" }, *rng.pick(&["One", "AnyUnit"]), 0.0]));
        }
    }
    json!({ "ring": R::NAME, "len": 2, "mats": mats, "vecs": [], "mode": mode, "steps": steps, "with_trans": true })
}

// ---------------------------------------------------------------------------------------------
// execution
// ---------------------------------------------------------------------------------------------

struct Reduced<R: SimRing>
where
    for<'x> &'x R: RingOps<R>,
{
    mats: Vec<SpMat<R>>,                         // d'_i for i in 0..=len
    trans: Vec<Option<(SpMat<R>, SpMat<R>)>>,    // (forward, backward) per degree
    vecs: Vec<(usize, SpVec<R>)>,                // tracked vectors after reduction (same order)
}

fn run_sut<R: SimRing>(case: &Value) -> Reduced<R>
where
    for<'x> &'x R: RingOps<R>,
{
    let len = case["len"].as_u64().unwrap() as usize;
    let mats: Vec<SpMat<R>> = case["mats"].as_array().unwrap().iter().map(|m| spmat_from_json::<R>(m)).collect();
    let mats2 = mats.clone();
    let c = GenericChainComplex::<R>::generate(0..=(len as isize), 1, move |i| mats2[i as usize].clone());
    let with_trans = case["with_trans"].as_bool().unwrap();
    let mode = case["mode"].as_str().unwrap();
    if mode == "reduced" {
        let r = c.reduced();
        let ms = (0..=len).map(|i| r.d_matrix(i as isize)).collect();
        return Reduced { mats: ms, trans: vec![None; len + 1], vecs: vec![] };
    }
    // transfer maps may be asked for in some degrees only (`set_matrix(i, d, with_trans)` per degree,
    // exactly as `ChainReducer::from` does it for all of them)
    let mut r = match case.get("trans_mask").and_then(|m| m.as_array()) {
        Some(mask) => {
            use yui_homology::{ChainComplexTrait, GridTrait};
            let mut r = ChainReducer::new(c.support(), c.d_deg());
            for i in c.support() {
                for j in [i, i + c.d_deg()] {
                    if !r.is_set(j) {
                        let on = mask.get(j.max(0) as usize).and_then(|b| b.as_bool()).unwrap_or(false);
                        r.set_matrix(j, c.d_matrix(j), on);
                    }
                }
            }
            r
        }
        None => ChainReducer::from(&c, with_trans),
    };
    let tracked: Vec<(usize, SpVec<R>)> = case["vecs"].as_array().unwrap().iter().map(|v| {
        let d = v[0].as_u64().unwrap() as usize;
        let n = mats[d].ncols();
        (d, SpVec::from_entries(n, v[1].as_array().unwrap().iter().map(|e| (e[0].as_u64().unwrap() as usize, R::from_json(&e[1])))))
    }).collect();
    for (d, v) in &tracked {
        r.add_vec(*d as isize, v.clone());
    }
    if mode == "reduce" {
        r.reduce_all(false);
        r.reduce_all(true);
    } else {
        for s in case["steps"].as_array().unwrap() {
            let i = s[0].as_i64().unwrap() as isize;
            let pt = if s[1] == "Rows" { PivotType::Rows } else { PivotType::Cols };
            let pc = match s[2].as_str().unwrap() { "One" => PivotCondition::One, "AnyUnit" => PivotCondition::AnyUnit, _ => PivotCondition::Weight(s[3].as_f64().unwrap()) };
            r.reduce_at_spec(i, pt, pc);
        }
    }
    let ms = (0..=len).map(|i| r.matrix(i as isize).unwrap().clone()).collect();
    let ts = (0..=len).map(|i| r.trans(i as isize).map(|t| (t.forward_mat(), t.backward_mat()))).collect();
    // tracked vectors come back per degree in insertion order
    let mut per_deg: std::collections::BTreeMap<usize, usize> = Default::default();
    let vecs = tracked.iter().map(|(d, _)| {
        let k = per_deg.entry(*d).or_insert(0);
        let v = r.vecs(*d as isize).unwrap()[*k].clone();
        *k += 1;
        (*d, v)
    }).collect();
    Reduced { mats: ms, trans: ts, vecs }
}

trait HomologyOf: RefRing {
    fn homology(n: usize, din: Option<&DM<Self>>, dout: Option<&DM<Self>>) -> Vec<IsoType>;
}
impl HomologyOf for refmodel::Z {
    fn homology(n: usize, din: Option<&DM<Self>>, dout: Option<&DM<Self>>) -> Vec<IsoType> {
        vec![homology_z(n, din, dout)]
    }
}
impl HomologyOf for refmodel::Q {
    fn homology(n: usize, din: Option<&DM<Self>>, dout: Option<&DM<Self>>) -> Vec<IsoType> {
        vec![homology_field(n, din, dout)]
    }
}
impl<const P: u32> HomologyOf for refmodel::Fp<P> {
    fn homology(n: usize, din: Option<&DM<Self>>, dout: Option<&DM<Self>>) -> Vec<IsoType> {
        vec![homology_field(n, din, dout)]
    }
}
impl HomologyOf for refmodel::Poly2<refmodel::Z> {
    fn homology(n: usize, din: Option<&DM<Self>>, dout: Option<&DM<Self>>) -> Vec<IsoType> {
        // Z[H] is not a PID: compare after specialising H (a homotopy equivalence survives base change)
        [0i64, 1, 2, -3].iter().map(|&h| {
            let hv = refmodel::Z::from_i64(h);
            let ev = |m: &DM<Self>| m.map(|p| p.eval(&hv, &refmodel::Z::zero()));
            homology_z(n, din.map(ev).as_ref(), dout.map(ev).as_ref())
        }).collect()
    }
}
impl HomologyOf for refmodel::GaussZ {
    fn homology(_n: usize, _din: Option<&DM<Self>>, _dout: Option<&DM<Self>>) -> Vec<IsoType> {
        vec![]
    }
}

fn complex_homology<Rr: HomologyOf>(ds: &[DM<Rr>], ranks: &[usize]) -> Vec<Vec<IsoType>> {
    // ds[i]: C_i -> C_{i+1}
    (0..ranks.len()).map(|i| {
        let din = if i > 0 { Some(&ds[i - 1]) } else { None };
        let dout = ds.get(i);
        Rr::homology(ranks[i], din, dout)
    }).collect()
}

fn run_typed<R: SimRing>(case: &Value, ex: &mut Executor) -> RunReport
where
    for<'x> &'x R: RingOps<R>,
    R::Ref: HomologyOf,
{
    let mut rep = RunReport::default();
    rep.outcome_class = case["mode"].as_str().unwrap().to_string();
    let c1 = case.clone();
    let res = ex.exec(None, rt::fs::Disk::default(), move || run_sut::<R>(&c1));
    let st = ex.stats.last().cloned().unwrap_or_default();
    rep.nontrivial = st.counters.get("pivot.commit.par").copied().unwrap_or(0) > 0 || (st.par_items >= 2 && st.max_workers_used >= 2);
    rep.counters.insert("runs_with_parallel_pivot_commit".into(), (st.counters.get("pivot.commit.par").copied().unwrap_or(0) > 0) as u64);
    rep.counters.insert(format!("mode:{}", rep.outcome_class), 1);
    let red = match res {
        Err(a) => {
            let v = abort_to_violation(&a);
            if is_machine_overflow(&v) && matches!(R::NAME, "Z" | "Q" | "ZH") {
                rep.counters.insert("machine_overflow_skipped".into(), 1);
                rep.outcome_class += "/overflow";
                return rep;
            }
            rep.violation = Some(v);
            rep.outcome_class += "/abort";
            return rep;
        }
        Ok(r) => r,
    };
    let len = case["len"].as_u64().unwrap() as usize;
    let d: Vec<DM<R::Ref>> = case["mats"].as_array().unwrap().iter().map(|m| dm_from_json::<R>(m)).collect();
    let dr: Vec<DM<R::Ref>> = red.mats.iter().map(|m| spmat_to_dm(m)).collect();
    let mut dg = 0u64;
    for m in &dr { dg = rt::mix(dg, ((m.rows as u64) << 32) | m.cols as u64); dg = rt::mix(dg, m.nnz() as u64); }
    rep.outcome_digest = dg;
    let ranks: Vec<usize> = d.iter().map(|m| m.cols).collect();
    let rranks: Vec<usize> = dr.iter().map(|m| m.cols).collect();
    let fail = |class: &str, msg: String| Some(Violation::new(class, msg));
    let (n_cyc, n_cyc_nz) = (std::cell::Cell::new(0u64), std::cell::Cell::new(0u64));
    rep.violation = (|| {
        // shapes chain up
        for i in 0..len {
            if dr[i].rows != rranks[i + 1] { return fail("reduced-shape", format!("d'_{i} has {} rows but C'_{} has rank {}", dr[i].rows, i + 1, rranks[i + 1])); }
        }
        for i in 0..len.saturating_sub(0) {
            if i + 1 <= len && i + 1 < dr.len() && dr[i + 1].cols == dr[i].rows && !dr[i + 1].mul(&dr[i]).is_zero() {
                return fail("reduced-dd-nonzero", format!("d'_{}∘d'_{} != 0", i + 1, i));
            }
        }
        // transfer maps
        for i in 0..=len {
            if let Some((f, b)) = &red.trans[i] {
                let (f, b) = (spmat_to_dm(f), spmat_to_dm(b));
                if (f.rows, f.cols, b.rows, b.cols) != (rranks[i], ranks[i], ranks[i], rranks[i]) {
                    return fail("trans-shape", format!("degree {i}: f is {}x{}, b is {}x{}, ranks {} -> {}", f.rows, f.cols, b.rows, b.cols, ranks[i], rranks[i]));
                }
                if !f.mul(&b).is_id() { return fail("trans-fb-not-id", format!("f∘b != id in degree {i}")); }
                if i < len {
                    if let Some((f1, b1)) = &red.trans[i + 1] {
                        let (f1, b1) = (spmat_to_dm(f1), spmat_to_dm(b1));
                        if f1.mul(&d[i]) != dr[i].mul(&f) { return fail("trans-f-not-chain-map", format!("f_{}∘d_{i} != d'_{i}∘f_{i}", i + 1)); }
                        if d[i].mul(&b) != b1.mul(&dr[i]) { return fail("trans-b-not-chain-map", format!("d_{i}∘b_{i} != b_{}∘d'_{i}", i + 1)); }
                    }
                }
            }
        }
        // tracked vectors
        for (k, (deg, v)) in red.vecs.iter().enumerate() {
            let orig = &case["vecs"][k];
            let mut vd = DM::<R::Ref>::zero(ranks[*deg], 1);
            for e in orig[1].as_array().unwrap() { vd.set(e[0].as_u64().unwrap() as usize, 0, R::ref_from_json(&e[1])); }
            let got = DM::from_entries(v.dim(), 1, v.iter().map(|(i, r)| (i, 0, r.to_ref())));
            if got.rows != rranks[*deg] { return fail("tracked-vector-shape", format!("vector {k} has dim {} in a rank-{} module", got.rows, rranks[*deg])); }
            if let Some((f, _)) = &red.trans[*deg] {
                if spmat_to_dm(f).mul(&vd) != got { return fail("tracked-vector-wrong", format!("tracked vector {k} != f(original)")); }
            } else if *deg < len && d[*deg].cols == vd.rows && dr[*deg].cols == got.rows && d[*deg].mul(&vd).is_zero() && !dr[*deg].mul(&got).is_zero() {
                // no transfer map to compare with: the image of a cycle under a chain map is still a cycle
                return fail("tracked-vector-wrong", format!("tracked vector {k} was a cycle, its image is not (no transfer maps kept)"));
            }
            // a tracked cycle z goes to a cycle z' whose class corresponds to [z] under the induced
            // isomorphism, so H_deg / <[z]> and H'_deg / <[z']> have the same isomorphism type
            // (decided with or without transfer maps: the quotient is the homology of the complex with
            // the incoming differential extended by the column z)
            let is_cycle = *deg >= len || d[*deg].mul(&vd).is_zero();
            let is_cycle_r = *deg >= len || dr[*deg].mul(&got).is_zero();
            if is_cycle && is_cycle_r {
                let aug = |din: Option<&DM<R::Ref>>, z: &DM<R::Ref>| -> DM<R::Ref> {
                    let c0 = din.map(|m| m.cols).unwrap_or(0);
                    let mut a = DM::<R::Ref>::zero(z.rows, c0 + 1);
                    if let Some(m) = din { for i in 0..m.rows { for j in 0..m.cols { if !m.get(i, j).is_zero() { a.set(i, j, m.get(i, j).clone()); } } } }
                    for i in 0..z.rows { if !z.get(i, 0).is_zero() { a.set(i, c0, z.get(i, 0).clone()); } }
                    a
                };
                let din = if *deg > 0 { Some(&d[*deg - 1]) } else { None };
                let dinr = if *deg > 0 { Some(&dr[*deg - 1]) } else { None };
                let q0 = <R::Ref as HomologyOf>::homology(ranks[*deg], Some(&aug(din, &vd)), if *deg < len { Some(&d[*deg]) } else { None });
                let q1 = <R::Ref as HomologyOf>::homology(rranks[*deg], Some(&aug(dinr, &got)), if *deg < len { Some(&dr[*deg]) } else { None });
                n_cyc.set(n_cyc.get() + 1);
                // probe: the class is non-zero (the quotient differs from the homology itself)
                if q0 != <R::Ref as HomologyOf>::homology(ranks[*deg], din, if *deg < len { Some(&d[*deg]) } else { None }) { n_cyc_nz.set(n_cyc_nz.get() + 1); }
                if q0 != q1 {
                    return fail("tracked-class-wrong", format!("tracked cycle {k} in degree {deg}: H/<[z]> is {:?} before and {:?} after the reduction", q0.iter().map(|x| x.describe()).collect::<Vec<_>>(), q1.iter().map(|x| x.describe()).collect::<Vec<_>>()));
                }
            }
        }
        // same homology
        let h0 = complex_homology(&d[..len], &ranks);
        let h1 = complex_homology(&dr[..len], &rranks);
        if h0 != h1 {
            let i = (0..=len).find(|&i| h0[i] != h1[i]).unwrap();
            return fail("homology-changed", format!("degree {i}: original {:?}, reduced {:?}", h0[i].iter().map(|x| x.describe()).collect::<Vec<_>>(), h1[i].iter().map(|x| x.describe()).collect::<Vec<_>>()));
        }
        None
    })();
    rep.counters.insert("tracked_cycles_class_checked".into(), n_cyc.get());
    rep.counters.insert("tracked_cycles_with_nonzero_class".into(), n_cyc_nz.get());
    rep
}

impl Check for C08 {
    fn id(&self) -> &'static str { "C08" }
    fn rule(&self) -> String {
        "one run = one chain complex (planted: direct sums of R, R-unit->R, R-c->R conjugated by sparse unimodular matrices, lengths 1..6; or simplicial boundary complexes) over Z, Q, F2, F3, Z[H] x one reduction scenario (ChainReducer::reduce shallow+deep with tracked vectors / explicit reduce_at_spec sequences over {Rows,Cols}x{One,AnyUnit,Weight} / ChainComplexBase::reduced()) x substrate configuration (1..16 workers, pick-up, strategy, schedule seed, hash seeds, spurious-retry buggify). distinct = distinct event-log digests; non-trivial = a pivot was committed in the parallel phase or a parallel call had >= 2 items on >= 2 workers".into()
    }
    fn assumptions(&self) -> Vec<String> {
        vec![
            "rayon executor semantics modelled by the shim".into(),
            "over Z[H] (not a PID) 'same homology' is checked after specialising H to 0, 1, 2, -3; the chain-map and f∘b=id identities are checked exactly over Z[H]".into(),
            "inputs sampled; entries kept small; an arithmetic-overflow panic of i64 / Ratio<i64> arithmetic is counted (machine_overflow_skipped) but not reported (machine integers are not Z)".into(),
        ]
    }
    fn required_probes(&self) -> Vec<&'static str> {
        vec!["runs_with_parallel_pivot_commit", "mode:reduce", "mode:steps", "mode:reduced"]
    }
    fn buggify_menu(&self) -> Vec<&'static str> { vec!["pivot.spurious_retry"] }
    fn max_steps(&self) -> usize { 2_000_000 }
    fn runs(&self, tier: &str) -> u64 { if tier == "quick" { 30_000 } else { 1_500_000 } }
    fn gen_case(&self, rng: &mut Rng, _idx: u64, _tier: &str) -> Value {
        if rng.chance(1, 60) {
            // a single fully dense differential over F3 (every entry a unit): every row covers every
            // column, so each reduction round finds exactly one pivot and the reducer needs as many
            // rounds as the rank - the longest chains of transfer maps a small input can produce
            let big_z = rng.chance(1, 3);
            let (m, n) = if big_z { (18 + rng.below(20) as usize, 18 + rng.below(20) as usize) } else { (30 + rng.below(45) as usize, 30 + rng.below(45) as usize) };
            let mut es = vec![];
            // over F7 only a third of the units are +-1, the default strategy pivots on those only and
            // a dense row occupies every column: few pivots per round, dozens of rounds;
            // over Z (arbitrary precision) most entries are non-units and the rounds stop earlier
            for i in 0..m { for j in 0..n {
                if big_z {
                    let v = if rng.chance(1, 7) { *rng.pick(&[1i64, -1]) } else { *rng.pick(&[2i64, -2, 3, -3, 5, -5, 7]) };
                    es.push(json!([i, j, v]));
                } else {
                    es.push(json!([i, j, 1 + rng.below(6)]));
                }
            } }
            let mats = vec![json!({ "m": m, "n": n, "entries": es }), json!({ "m": 0, "n": m, "entries": [] })];
            let mode = *rng.pick(&["reduce", "reduced"]);
            return json!({ "ring": if big_z { "ZB" } else { "F7" }, "len": 1, "mats": mats, "vecs": [], "mode": mode, "steps": [], "with_trans": true });
        }
        let ring = *rng.pick(&["Z", "Z", "ZB", "Q", "F2", "F3", "F3", "ZH"]);
        let simplicial = rng.chance(1, 5) && ring != "ZH";
        fn planted<R: SimRing>(rng: &mut Rng, simplicial: bool) -> Value where for<'x> &'x R: RingOps<R> {
            if simplicial { gen_simplicial::<R>(rng) } else { gen_planted::<R>(rng) }
        }
        match ring {
            "Z" => planted::<i64>(rng, simplicial),
            "ZB" => planted::<num_bigint::BigInt>(rng, simplicial),
            "Q" => planted::<yui::Ratio<i64>>(rng, simplicial),
            "F2" => planted::<yui::FF<2>>(rng, simplicial),
            "F3" => planted::<yui::FF<3>>(rng, simplicial),
            _ => planted::<yui::poly::Poly<'H', i64>>(rng, simplicial),
        }
    }
    fn run_case(&self, case: &Value, ex: &mut Executor) -> RunReport {
        match case["ring"].as_str().unwrap() {
            "Z" => run_typed::<i64>(case, ex),
            "ZB" => run_typed::<num_bigint::BigInt>(case, ex),
            "Q" => run_typed::<yui::Ratio<i64>>(case, ex),
            "F2" => run_typed::<yui::FF<2>>(case, ex),
            "F3" => run_typed::<yui::FF<3>>(case, ex),
            "F7" => run_typed::<yui::FF<7>>(case, ex),
            _ => run_typed::<yui::poly::Poly<'H', i64>>(case, ex),
        }
    }
    fn shrink_case(&self, case: &Value) -> Vec<Value> {
        // drop steps / tracked vectors (the complex itself must stay a complex)
        let mut out = vec![];
        for key in ["steps", "vecs"] {
            let arr = case[key].as_array().unwrap();
            for k in 0..arr.len() {
                let mut a2 = arr.clone();
                a2.remove(k);
                let mut c = case.clone();
                c[key] = json!(a2);
                out.push(c);
            }
        }
        out
    }
}
