//! Workload generators for the matrix-level checks (explicit JSON workloads, so that a replay
//! file never depends on the generator).

use serde_json::{json, Value};
use yui_verif_rt::Rng;

use crate::rings::SimRing;

fn gen_val(rng: &mut Rng, ring: &str, kind: u32) -> Value {
    match ring {
        "Z" | "ZB" => <i64 as SimRing>::gen(rng, kind),
        "Q" => <yui::Ratio<i64> as SimRing>::gen(rng, kind),
        "F2" => <yui::FF<2> as SimRing>::gen(rng, kind),
        "F3" => <yui::FF<3> as SimRing>::gen(rng, kind),
        "F7" => <yui::FF<7> as SimRing>::gen(rng, kind),
        "ZH" => <yui::poly::Poly<'H', i64> as SimRing>::gen(rng, kind),
        "ZI" => <yui::GaussInt<i64> as SimRing>::gen(rng, kind),
        _ => panic!("ring {ring}"),
    }
}

pub fn neg_val(ring: &str, v: &Value) -> Value {
    match ring {
        "Z" | "ZB" => json!(-v.as_i64().unwrap()),
        "Q" => json!([-v[0].as_i64().unwrap(), v[1]]),
        "F2" => v.clone(),
        "F3" => json!((3 - v.as_i64().unwrap()) % 3),
        "F7" => json!((7 - v.as_i64().unwrap()) % 7),
        "ZH" => Value::Array(v.as_array().unwrap().iter().map(|t| json!([t[0], -t[1].as_i64().unwrap()])).collect()),
        "ZI" => json!([-v[0].as_i64().unwrap(), -v[1].as_i64().unwrap()]),
        _ => panic!("ring {ring}"),
    }
}

pub fn dims(rng: &mut Rng, max: u64) -> usize {
    match rng.below(10) {
        0 => rng.below(4) as usize,               // 0..3 (corner shapes)
        1..=7 => 4 + rng.below(9.min(max - 3)) as usize, // 4..12
        _ => 4 + rng.below(max - 3) as usize,     // up to max
    }
}

/// A sparse matrix for pivot search: several families, because uniformly random matrices
/// under-represent long dependency chains.
pub fn gen_matrix(rng: &mut Rng, ring: &str) -> Value {
    let family = rng.below(14);
    let (m, n) = (dims(rng, 24), dims(rng, 24));
    let mut entries: Vec<Value> = vec![];
    match family {
        0..=4 if matches!(ring, "Z" | "ZB" | "F2" | "F3" | "F7") && rng.chance(1, 60) => {
            // large square sparse: a few hundred rows with 3-7 entries each (mostly units), far more
            // rows per simulated worker than any other family (state kept per worker across rows)
            let n = 260 + rng.below(240) as usize;
            let per_row = 3 + rng.below(5);
            for i in 0..n {
                for _ in 0..per_row {
                    let j = rng.below(n as u64) as usize;
                    if !entries.iter().rev().take(8).any(|e: &Value| e[0] == json!(i) && e[1] == json!(j)) {
                        let kind = if rng.chance(5, 6) { 1 } else { 0 };
                        entries.push(json!([i, j, gen_val(rng, ring, kind)]));
                    }
                }
            }
            entries.retain(|e| !is_zero_val(ring, &e[2]));
            return json!({ "m": n, "n": n, "entries": entries });
        }
        0..=4 => {
            // random sparse
            let dens = *rng.pick(&[5u64, 10, 15, 25, 40, 55, 70]);
            let unit_bias = *rng.pick(&[30u64, 60, 90]);
            for i in 0..m {
                for j in 0..n {
                    if rng.below(100) < dens {
                        let kind = if rng.below(100) < unit_bias { 1 } else { 0 };
                        entries.push(json!([i, j, gen_val(rng, ring, kind)]));
                    }
                }
            }
        }
        5 | 6 => {
            // banded / chain structure under a random permutation: long chains of dependent pivots
            let bw = 1 + rng.below(3) as usize;
            let mut pr: Vec<usize> = (0..m).collect();
            let mut pc: Vec<usize> = (0..n).collect();
            rng.shuffle(&mut pr);
            rng.shuffle(&mut pc);
            for i in 0..m {
                for d in 0..=bw {
                    let j = i + d;
                    if j < n && (d == 0 || rng.chance(2, 3)) {
                        entries.push(json!([pr[i], pc[j], gen_val(rng, ring, 1)]));
                    }
                }
                if rng.chance(1, 5) && n > 0 {
                    entries.push(json!([pr[i], rng.below(n as u64), gen_val(rng, ring, 0)]));
                }
            }
        }
        7 => {
            // boundary matrix d2 of a random 2-dimensional simplicial complex: edges x triangles
            let v = 4 + rng.below(5) as usize;
            let mut edges = vec![];
            for a in 0..v {
                for b in (a + 1)..v {
                    edges.push((a, b));
                }
            }
            let mut tris = vec![];
            for a in 0..v {
                for b in (a + 1)..v {
                    for c in (b + 1)..v {
                        if rng.chance(1, 3) {
                            tris.push((a, b, c));
                        }
                    }
                }
            }
            tris.truncate(24);
            let eidx = |a: usize, b: usize| edges.iter().position(|&e| e == (a, b)).unwrap();
            let one = gen_val(rng, ring, 1);
            let one = if ring == "F2" { json!(1) } else { one };
            let _ = one;
            let pos = match ring { "Z" | "ZB" => json!(1), "Q" => json!([1, 1]), "F2" | "F3" | "F7" => json!(1), "ZH" => json!([[0, 1]]), _ => json!([1, 0]) };
            let neg = neg_val(ring, &pos);
            for (t, &(a, b, c)) in tris.iter().enumerate() {
                entries.push(json!([eidx(b, c), t, pos]));
                entries.push(json!([eidx(a, c), t, neg]));
                entries.push(json!([eidx(a, b), t, pos]));
            }
            return json!({ "m": edges.len(), "n": tris.len(), "entries": entries });
        }
        10..=13 => {
            // "phase-3 heavy": every row starts in column 0 (so the first sequential phase finds one
            // pivot), rows are dense enough that the second sequential phase occupies all columns
            // after a few picks; the remaining rows race in the parallel cycle-free search.
            // size is a knob too: one phase-3 run in eight leaves far more than 64 rows to the
            // parallel phase (chunked / batched variants of the loop only differ beyond such sizes)
            let big = rng.chance(1, 8);
            // very wide: the same structure followed by more than a thousand (nearly) empty columns
            // (per-row scans that are split up or vectorised only beyond some width); for the
            // transposed search the same matrix is very tall
            let pad = if rng.chance(1, 20) { 1024 + rng.below(300) as usize } else { 0 };
            let (m, n) = if big { (70 + rng.below(90) as usize, 10 + rng.below(30) as usize) } else { (6 + rng.below(19) as usize, 5 + rng.below(16) as usize) };
            let dens = if big { *rng.pick(&[10u64, 20, 30]) } else { *rng.pick(&[20u64, 35, 50]) };
            let head_unit = rng.chance(1, 3);
            for i in 0..m {
                entries.push(json!([i, 0, gen_val(rng, ring, if head_unit { 1 } else { 3 })]));
                for j in 1..n {
                    if rng.below(100) < dens {
                        let kind = if rng.chance(4, 5) { 1 } else { 0 };
                        entries.push(json!([i, j, gen_val(rng, ring, kind)]));
                    }
                }
            }
            for _ in 0..(if pad > 0 { rng.below(4) } else { 0 }) {
                entries.push(json!([rng.below(m as u64), n + rng.below(pad as u64) as usize, gen_val(rng, ring, 1)]));
            }
            entries.retain(|e| !is_zero_val(ring, &e[2]));
            return json!({ "m": m, "n": n + pad, "entries": entries });
        }
        _ => {
            // block diagonal with dense-ish blocks, permuted
            let mut pr: Vec<usize> = (0..m).collect();
            let mut pc: Vec<usize> = (0..n).collect();
            rng.shuffle(&mut pr);
            rng.shuffle(&mut pc);
            let bs = 2 + rng.below(3) as usize;
            for i in 0..m {
                for j in 0..n {
                    if i / bs == j / bs && rng.chance(3, 4) {
                        let kind = if rng.chance(2, 3) { 1 } else { 0 };
                        entries.push(json!([pr[i], pc[j], gen_val(rng, ring, kind)]));
                    }
                }
            }
        }
    }
    // explicit stored zeros: a cancelling duplicate pair (the COO->CSC conversion sums duplicates
    // and keeps the resulting zero)
    if rng.chance(1, 5) && m > 0 && n > 0 {
        for _ in 0..(1 + rng.below(4)) {
            let (i, j) = (rng.below(m as u64), rng.below(n as u64));
            let v = gen_val(rng, ring, 1);
            let nv = neg_val(ring, &v);
            // only where no other entry lives, so that the stored value is exactly zero
            if !entries.iter().any(|e| e[0] == json!(i) && e[1] == json!(j)) {
                entries.push(json!([i, j, v]));
                entries.push(json!([i, j, nv]));
            }
        }
    }
    // drop zero values produced by the generators (Q kind 3)
    entries.retain(|e| !is_zero_val(ring, &e[2]));
    json!({ "m": m, "n": n, "entries": entries })
}

pub fn is_zero_val(ring: &str, v: &Value) -> bool {
    match ring {
        "Z" | "ZB" | "F2" | "F3" | "F7" => v.as_i64() == Some(0),
        "Q" => v[0].as_i64() == Some(0),
        "ZH" => v.as_array().unwrap().iter().all(|t| t[1].as_i64() == Some(0)),
        "ZI" => v[0].as_i64() == Some(0) && v[1].as_i64() == Some(0),
        _ => false,
    }
}

/// Simpler matrices: drop a row, a column, an entry.
pub fn shrink_matrix(a: &Value) -> Vec<Value> {
    let m = a["m"].as_u64().unwrap();
    let n = a["n"].as_u64().unwrap();
    let es = a["entries"].as_array().unwrap();
    let mut out = vec![];
    for r in (0..m).rev() {
        let e2: Vec<Value> = es.iter().filter(|e| e[0].as_u64().unwrap() != r).map(|e| {
            let i = e[0].as_u64().unwrap();
            json!([if i > r { i - 1 } else { i }, e[1], e[2]])
        }).collect();
        out.push(json!({ "m": m - 1, "n": n, "entries": e2 }));
    }
    for c in (0..n).rev() {
        let e2: Vec<Value> = es.iter().filter(|e| e[1].as_u64().unwrap() != c).map(|e| {
            let j = e[1].as_u64().unwrap();
            json!([e[0], if j > c { j - 1 } else { j }, e[2]])
        }).collect();
        out.push(json!({ "m": m, "n": n - 1, "entries": e2 }));
    }
    for k in 0..es.len() {
        let mut e2 = es.clone();
        e2.remove(k);
        out.push(json!({ "m": m, "n": n, "entries": e2 }));
    }
    out
}
