//! tls-shim — `thread_local::ThreadLocal` keyed by *simulated* worker (shuttle task id), so that
//! "the same thread" means in simulation what it means under rayon: a worker that handles several
//! items of one parallel call sees the same slot every time.  Outside a simulation the key is the
//! OS thread, as in the real crate.

use std::cell::UnsafeCell;
use std::collections::BTreeMap;
use std::sync::Mutex;

fn key() -> u64 {
    match yui_verif_rt::current_task() {
        Some(t) => t as u64,
        None => {
            // stable per-OS-thread key
            thread_local! { static K: u8 = const { 0 } }
            K.with(|k| (k as *const u8 as u64) | (1 << 63))
        }
    }
}

pub struct ThreadLocal<T: Send> {
    // Box gives every value a stable address; entries are never removed before drop.
    slots: Mutex<BTreeMap<u64, Box<UnsafeCell<T>>>>,
}

// Same bounds as the real crate: shared access hands out `&T` only to the owning thread.
unsafe impl<T: Send> Sync for ThreadLocal<T> {}
unsafe impl<T: Send> Send for ThreadLocal<T> {}

impl<T: Send> Default for ThreadLocal<T> {
    fn default() -> Self {
        Self::new()
    }
}

impl<T: Send> ThreadLocal<T> {
    pub fn new() -> Self {
        ThreadLocal { slots: Mutex::new(BTreeMap::new()) }
    }

    pub fn with_capacity(_n: usize) -> Self {
        Self::new()
    }

    pub fn get_or_try<F: FnOnce() -> Result<T, E>, E>(&self, create: F) -> Result<&T, E> {
        if let Some(v) = self.get() {
            yui_verif_rt::note_tls(false);
            return Ok(v);
        }
        let v = create()?;
        Ok(self.get_or(|| v))
    }

    /// all values, in slot-creation-independent (key) order
    pub fn iter(&self) -> impl Iterator<Item = &T>
    where
        T: Sync,
    {
        let g = self.slots.lock().unwrap();
        let v: Vec<&T> = g.values().map(|b| unsafe { &*b.get() }).collect();
        v.into_iter()
    }

    pub fn get(&self) -> Option<&T> {
        let k = key();
        let g = self.slots.lock().unwrap();
        // SAFETY: the box is never moved or dropped while `self` is alive, and only the task
        // with key `k` ever obtains a reference to this slot.
        g.get(&k).map(|b| unsafe { &*b.get() })
    }

    pub fn get_or<F: FnOnce() -> T>(&self, create: F) -> &T {
        if let Some(v) = self.get() {
            yui_verif_rt::note_tls(false);
            return v;
        }
        // `create` may itself reach a scheduling point (e.g. takes a read lock): run it without
        // holding the slot table.
        let v = create();
        yui_verif_rt::note_tls(true);
        let k = key();
        let mut g = self.slots.lock().unwrap();
        let b = g.entry(k).or_insert_with(|| Box::new(UnsafeCell::new(v)));
        unsafe { &*b.get() }
    }

    pub fn get_or_default(&self) -> &T
    where
        T: Default,
    {
        self.get_or(T::default)
    }

    pub fn iter_mut(&mut self) -> impl Iterator<Item = &mut T> {
        self.slots.get_mut().unwrap().values_mut().map(|b| b.get_mut())
    }

    pub fn into_iter_values(self) -> impl Iterator<Item = T> {
        self.slots.into_inner().unwrap().into_values().map(|b| b.into_inner())
    }

    pub fn clear(&mut self) {
        self.slots.get_mut().unwrap().clear()
    }
}

impl<T: Send> IntoIterator for ThreadLocal<T> {
    type Item = T;
    type IntoIter = std::vec::IntoIter<T>;
    fn into_iter(self) -> Self::IntoIter {
        self.slots.into_inner().unwrap().into_values().map(|b| b.into_inner()).collect::<Vec<_>>().into_iter()
    }
}
