//! Simulator-owned `Mutex` / `RwLock` with std's API (`LockResult`, poisoning).
//!
//! Every acquire and every release is a scheduling point.  A blocked acquirer parks its simulated
//! task; a release unparks all waiters, which then race (std gives no fairness guarantee).
//!
//! Why not shuttle's own locks: when a guard is dropped while its task unwinds, shuttle releases
//! the permits but deliberately never wakes the waiters (it assumes a panic ends the test).  The
//! code under test, like rayon, *survives* worker panics (they are caught and re-raised in the
//! caller), and the waiters must then observe a poisoned lock exactly as with `std::sync`.  So a
//! release during unwinding only records the wake-up; `flush_wakeups()` delivers it once the
//! unwinding is over (the rayon shim calls it right after catching a worker panic) — no
//! scheduling point is ever taken while a panic is in flight (all simulated tasks share one OS
//! thread, a second panic during unwinding would abort the process).

use std::cell::{Cell, RefCell, UnsafeCell};
use std::ops::{Deref, DerefMut};
use std::sync::{LockResult, PoisonError};

thread_local! {
    static PENDING_WAKE: RefCell<Vec<shuttle::thread::Thread>> = const { RefCell::new(Vec::new()) };
}

/// Deliver wake-ups that were recorded while a task was unwinding.  Must not be called while
/// panicking.
pub fn flush_wakeups() {
    if std::thread::panicking() || !crate::in_sim() {
        return;
    }
    let list: Vec<_> = PENDING_WAKE.with(|p| std::mem::take(&mut *p.borrow_mut()));
    for t in list {
        t.unpark();
    }
}

pub(crate) fn reset_pending() {
    PENDING_WAKE.with(|p| p.borrow_mut().clear());
}

struct Raw {
    writer: Cell<bool>,
    readers: Cell<u32>,
    poisoned: Cell<bool>,
    waiters: RefCell<Vec<shuttle::thread::Thread>>,
}

impl Raw {
    const fn new() -> Self {
        Raw { writer: Cell::new(false), readers: Cell::new(0), poisoned: Cell::new(false), waiters: RefCell::new(Vec::new()) }
    }

    fn acquire(&self, write: bool) {
        let sim = crate::in_sim();
        if sim {
            flush_wakeups();
        }
        loop {
            if sim {
                // acquisition order is the scheduler's decision
                shuttle::thread::sleep(std::time::Duration::ZERO);
            }
            let free = if write { !self.writer.get() && self.readers.get() == 0 } else { !self.writer.get() };
            if free {
                if write {
                    self.writer.set(true)
                } else {
                    self.readers.set(self.readers.get() + 1)
                }
                crate::digest_note(0x10CC, write as u64);
                return;
            }
            if !sim {
                panic!("yui_verif_rt lock would block outside a simulation");
            }
            crate::count("lock.blocked", 1);
            self.waiters.borrow_mut().push(shuttle::thread::current());
            shuttle::thread::park();
        }
    }

    fn release(&self, write: bool) {
        if write {
            debug_assert!(self.writer.get());
            self.writer.set(false);
        } else {
            debug_assert!(self.readers.get() > 0);
            self.readers.set(self.readers.get() - 1);
        }
        let waiters: Vec<_> = std::mem::take(&mut *self.waiters.borrow_mut());
        if std::thread::panicking() {
            self.poisoned.set(true);
            crate::count("lock.poisoned", 1);
            PENDING_WAKE.with(|p| p.borrow_mut().extend(waiters));
            return;
        }
        if crate::in_sim() {
            for t in waiters {
                t.unpark();
            }
            // release is a scheduling point even without waiters
            shuttle::thread::sleep(std::time::Duration::ZERO);
        }
    }
}

// ---------------------------------------------------------------------------------------------

pub struct Mutex<T: ?Sized> {
    raw: Raw,
    data: UnsafeCell<T>,
}

// Same bounds as std.  All simulated tasks run on one OS thread and the scheduler serialises them,
// so the interior `Cell`s are never accessed concurrently.
unsafe impl<T: ?Sized + Send> Send for Mutex<T> {}
unsafe impl<T: ?Sized + Send> Sync for Mutex<T> {}

pub struct MutexGuard<'a, T: ?Sized> {
    lock: &'a Mutex<T>,
}

impl<T> Mutex<T> {
    pub const fn new(t: T) -> Self {
        Mutex { raw: Raw::new(), data: UnsafeCell::new(t) }
    }
    pub fn into_inner(self) -> LockResult<T> {
        let p = self.raw.poisoned.get();
        let v = self.data.into_inner();
        if p { Err(PoisonError::new(v)) } else { Ok(v) }
    }
}

impl<T: ?Sized> Mutex<T> {
    pub fn lock(&self) -> LockResult<MutexGuard<'_, T>> {
        self.raw.acquire(true);
        let g = MutexGuard { lock: self };
        // an internal failure while the lock is held (the guard is dropped by the unwinding: poison)
        crate::fault_point("lock.held");
        if self.raw.poisoned.get() { Err(PoisonError::new(g)) } else { Ok(g) }
    }
    pub fn is_poisoned(&self) -> bool {
        self.raw.poisoned.get()
    }
    pub fn get_mut(&mut self) -> LockResult<&mut T> {
        let p = self.raw.poisoned.get();
        let v = self.data.get_mut();
        if p { Err(PoisonError::new(v)) } else { Ok(v) }
    }
}

impl<T: ?Sized> Deref for MutexGuard<'_, T> {
    type Target = T;
    fn deref(&self) -> &T {
        unsafe { &*self.lock.data.get() }
    }
}
impl<T: ?Sized> DerefMut for MutexGuard<'_, T> {
    fn deref_mut(&mut self) -> &mut T {
        unsafe { &mut *self.lock.data.get() }
    }
}
impl<T: ?Sized> Drop for MutexGuard<'_, T> {
    fn drop(&mut self) {
        self.lock.raw.release(true);
    }
}
impl<T: ?Sized + std::fmt::Debug> std::fmt::Debug for Mutex<T> {
    fn fmt(&self, f: &mut std::fmt::Formatter<'_>) -> std::fmt::Result {
        f.write_str("Mutex { .. }")
    }
}

// ---------------------------------------------------------------------------------------------

pub struct RwLock<T: ?Sized> {
    raw: Raw,
    data: UnsafeCell<T>,
}

unsafe impl<T: ?Sized + Send> Send for RwLock<T> {}
unsafe impl<T: ?Sized + Send + Sync> Sync for RwLock<T> {}

pub struct RwLockReadGuard<'a, T: ?Sized> {
    lock: &'a RwLock<T>,
}
pub struct RwLockWriteGuard<'a, T: ?Sized> {
    lock: &'a RwLock<T>,
}

impl<T> RwLock<T> {
    pub const fn new(t: T) -> Self {
        RwLock { raw: Raw::new(), data: UnsafeCell::new(t) }
    }
    pub fn into_inner(self) -> LockResult<T> {
        let p = self.raw.poisoned.get();
        let v = self.data.into_inner();
        if p { Err(PoisonError::new(v)) } else { Ok(v) }
    }
}

impl<T: ?Sized> RwLock<T> {
    pub fn read(&self) -> LockResult<RwLockReadGuard<'_, T>> {
        self.raw.acquire(false);
        let g = RwLockReadGuard { lock: self };
        if self.raw.poisoned.get() { Err(PoisonError::new(g)) } else { Ok(g) }
    }
    pub fn write(&self) -> LockResult<RwLockWriteGuard<'_, T>> {
        self.raw.acquire(true);
        let g = RwLockWriteGuard { lock: self };
        crate::fault_point("lock.held");
        if self.raw.poisoned.get() { Err(PoisonError::new(g)) } else { Ok(g) }
    }
    pub fn is_poisoned(&self) -> bool {
        self.raw.poisoned.get()
    }
    pub fn get_mut(&mut self) -> LockResult<&mut T> {
        let p = self.raw.poisoned.get();
        let v = self.data.get_mut();
        if p { Err(PoisonError::new(v)) } else { Ok(v) }
    }
}

impl<T: ?Sized> Deref for RwLockReadGuard<'_, T> {
    type Target = T;
    fn deref(&self) -> &T {
        unsafe { &*self.lock.data.get() }
    }
}
impl<T: ?Sized> Drop for RwLockReadGuard<'_, T> {
    fn drop(&mut self) {
        // std poisons an RwLock only from a writer
        let was = self.lock.raw.poisoned.get();
        self.lock.raw.release(false);
        if !was {
            self.lock.raw.poisoned.set(false);
        }
    }
}
impl<T: ?Sized> Deref for RwLockWriteGuard<'_, T> {
    type Target = T;
    fn deref(&self) -> &T {
        unsafe { &*self.lock.data.get() }
    }
}
impl<T: ?Sized> DerefMut for RwLockWriteGuard<'_, T> {
    fn deref_mut(&mut self) -> &mut T {
        unsafe { &mut *self.lock.data.get() }
    }
}
impl<T: ?Sized> Drop for RwLockWriteGuard<'_, T> {
    fn drop(&mut self) {
        self.lock.raw.release(true);
    }
}
impl<T: ?Sized + std::fmt::Debug> std::fmt::Debug for RwLock<T> {
    fn fmt(&self, f: &mut std::fmt::Formatter<'_>) -> std::fmt::Result {
        f.write_str("RwLock { .. }")
    }
}
