//! yui_verif_rt — runtime used by the instrumented (`--cfg yui_verif`) repo code and by the
//! simulator shims.
//!
//! One simulated run executes entirely on ONE OS thread (all simulated workers are shuttle
//! coroutines on it), so the per-run context is an ordinary `std::thread_local!`.  Nothing in here
//! reads a clock or an OS random source; every decision is drawn from PRNG streams that are derived
//! from the run seed, and every event is folded into the run digest.

use std::cell::RefCell;
use std::collections::BTreeMap;

pub mod sync;

pub mod fs;
pub mod sched;

// ---------------------------------------------------------------------------------------------
// PRNG (SplitMix64): tiny, fast, good enough for swarm decisions; one per stream.
// ---------------------------------------------------------------------------------------------

#[derive(Clone, Debug)]
pub struct Rng(pub u64);

impl Rng {
    pub fn new(seed: u64) -> Self {
        Rng(seed ^ 0x9E37_79B9_7F4A_7C15)
    }
    #[inline]
    pub fn next_u64(&mut self) -> u64 {
        self.0 = self.0.wrapping_add(0x9E37_79B9_7F4A_7C15);
        let mut z = self.0;
        z = (z ^ (z >> 30)).wrapping_mul(0xBF58_476D_1CE4_E5B9);
        z = (z ^ (z >> 27)).wrapping_mul(0x94D0_49BB_1331_11EB);
        z ^ (z >> 31)
    }
    /// uniform in 0..n (n > 0)
    #[inline]
    pub fn below(&mut self, n: u64) -> u64 {
        debug_assert!(n > 0);
        // multiply-shift; bias is irrelevant here
        ((self.next_u64() as u128 * n as u128) >> 64) as u64
    }
    #[inline]
    pub fn range(&mut self, lo: i64, hi_incl: i64) -> i64 {
        lo + self.below((hi_incl - lo + 1) as u64) as i64
    }
    #[inline]
    pub fn chance(&mut self, num: u64, den: u64) -> bool {
        self.below(den) < num
    }
    pub fn pick<'a, T>(&mut self, xs: &'a [T]) -> &'a T {
        &xs[self.below(xs.len() as u64) as usize]
    }
    pub fn shuffle<T>(&mut self, xs: &mut [T]) {
        for i in (1..xs.len()).rev() {
            let j = self.below(i as u64 + 1) as usize;
            xs.swap(i, j);
        }
    }
    pub fn fork(&mut self, tag: u64) -> Rng {
        Rng::new(mix(self.next_u64(), tag))
    }
}

pub fn mix(a: u64, b: u64) -> u64 {
    let mut r = Rng(a ^ b.rotate_left(32) ^ 0xD1B5_4A32_D192_ED03);
    r.next_u64();
    r.next_u64() ^ b
}

// ---------------------------------------------------------------------------------------------
// Per-run configuration and context
// ---------------------------------------------------------------------------------------------

/// How the rayon shim hands items to its simulated workers.
#[derive(Clone, Copy, Debug, PartialEq, Eq)]
pub enum Pickup {
    Front,
    Back,
    Random,
}

#[derive(Clone, Debug)]
pub struct ParCfg {
    /// simulated worker threads for a top-level parallel call (1..=16)
    pub workers: usize,
    /// workers for a parallel call issued from inside a worker
    pub nested_workers: usize,
    pub pickup: Pickup,
    /// buggify: a worker retires after a single item (forces many thread-local slots)
    pub one_item_per_worker: bool,
    /// buggify: all items go to one worker although several exist (maximal slot reuse)
    pub all_on_one: bool,
    /// buggify: order of insertion when collecting into an unordered container
    pub permute_unordered_collect: bool,
    /// a worker that waits for its own nested parallel call and finds nothing of that call left to
    /// run executes pending items of OTHER calls meanwhile (rayon's work stealing while waiting:
    /// the stolen item runs on top of the waiting frame, on the same thread and thread-locals)
    pub steal_while_waiting: bool,
}

impl Default for ParCfg {
    fn default() -> Self {
        ParCfg {
            workers: 1,
            nested_workers: 1,
            pickup: Pickup::Front,
            one_item_per_worker: false,
            all_on_one: false,
            permute_unordered_collect: false,
            steal_while_waiting: false,
        }
    }
}

/// Injected panic: fire when fault point `site` is reached for the `nth` time (0-based).
#[derive(Clone, Debug, PartialEq, Eq)]
pub struct PanicFault {
    pub site: String,
    pub nth: u64,
}

#[derive(Clone, Debug, Default)]
pub struct RunCfg {
    pub par: ParCfg,
    /// key of the hash-seed stream (std `RandomState` through `getrandom`, ahash through
    /// `set_random_source`)
    pub hash_key: u64,
    /// sites at which `buggify` may fire, with the per-call probability numerator (out of 256)
    pub buggify_sites: Vec<(String, u32)>,
    /// cap on the number of times one buggify site fires in a run
    pub buggify_cap: u32,
    pub buggify_key: u64,
    pub panic_faults: Vec<PanicFault>,
    /// record individual events (probe history); digest is always maintained
    pub keep_events: bool,
}

#[derive(Clone, Debug, PartialEq, Eq)]
pub struct Event {
    pub site: &'static str,
    pub task: u32,
    pub a: u64,
    pub b: u64,
    /// scheduling step (shuttle context switches) at which the event happened
    pub step: u64,
}

#[derive(Default, Debug, Clone)]
pub struct RunStats {
    pub digest: u64,
    pub events: Vec<Event>,
    pub counters: BTreeMap<String, u64>,
    pub hash_draws: u64,
    pub buggify_fired: BTreeMap<String, u64>,
    pub fault_points_seen: BTreeMap<String, u64>,
    pub faults_fired: Vec<String>,
    pub par_calls: u64,
    pub par_items: u64,
    pub max_workers_used: u64,
    pub tls_inits: u64,
    pub tls_reuse: u64,
    pub steps: u64,
    /// every simulated file read of the run: (path, delivered bytes or error text)
    pub disk_log: Vec<(String, Result<Vec<u8>, String>)>,
}

struct Ctx {
    cfg: RunCfg,
    hash_rng: Rng,
    bug_rng: Rng,
    shim_rng: Rng,
    bug_fired: BTreeMap<String, u32>,
    stats: RunStats,
    disk: fs::Disk,
}

thread_local! {
    static CTX: RefCell<Option<Ctx>> = const { RefCell::new(None) };
    static IN_SIM: std::cell::Cell<bool> = const { std::cell::Cell::new(false) };
}

/// Set by the harness while code runs inside a shuttle execution on this OS thread; shuttle's
/// `current::*` functions panic outside of one, so every shim asks this first.
pub fn set_in_sim(v: bool) {
    IN_SIM.with(|c| c.set(v));
}

pub fn in_sim() -> bool {
    IN_SIM.with(|c| c.get())
}

/// Simulated task id of the caller, None outside a simulation.
pub fn current_task() -> Option<u32> {
    if in_sim() {
        shuttle::current::get_current_task().map(|t| usize::from(t) as u32)
    } else {
        None
    }
}

/// Payload type of injected panics, so that harnesses can tell them from genuine ones.
#[derive(Debug, Clone)]
pub struct InjectedPanic(pub String);

pub fn begin_run(cfg: RunCfg, disk: fs::Disk) {
    sync::reset_pending();
    let hash_rng = Rng::new(mix(cfg.hash_key, 0x4841_5348)); // "HASH"
    let bug_rng = Rng::new(mix(cfg.buggify_key, 0x4255_4747)); // "BUGG"
    let shim_rng = Rng::new(mix(cfg.buggify_key, 0x5348_494D)); // "SHIM"
    CTX.with(|c| {
        *c.borrow_mut() = Some(Ctx {
            cfg,
            hash_rng,
            bug_rng,
            shim_rng,
            bug_fired: BTreeMap::new(),
            stats: RunStats::default(),
            disk,
        })
    });
}

pub fn end_run() -> Option<RunStats> {
    CTX.with(|c| c.borrow_mut().take().map(|mut c| {
        c.stats.disk_log = std::mem::take(&mut c.disk.log);
        c.stats
    }))
}

pub fn is_active() -> bool {
    CTX.with(|c| c.try_borrow().map(|c| c.is_some()).unwrap_or(true))
}

fn with_ctx<T>(f: impl FnOnce(&mut Ctx) -> T) -> Option<T> {
    CTX.with(|c| match c.try_borrow_mut() {
        Ok(mut g) => g.as_mut().map(f),
        Err(_) => None,
    })
}

#[inline]
fn fold(d: u64, x: u64) -> u64 {
    (d ^ x).wrapping_mul(0x0000_0100_0000_01B3).rotate_left(23)
}

fn str_hash(s: &str) -> u64 {
    let mut h = 0xcbf2_9ce4_8422_2325u64;
    for b in s.bytes() {
        h = (h ^ b as u64).wrapping_mul(0x0000_0100_0000_01B3);
    }
    h
}

fn cur_task() -> u32 {
    current_task().unwrap_or(u32::MAX)
}

fn cur_step() -> u64 {
    if in_sim() {
        shuttle::current::context_switches() as u64
    } else {
        0
    }
}

/// Fold an arbitrary value into the run digest (used by the scheduler and the shims).
pub fn digest_note(tag: u64, x: u64) {
    with_ctx(|c| {
        c.stats.digest = fold(fold(c.stats.digest, tag), x);
    });
}

/// A named observation from instrumented code.  Never draws from a PRNG, never reads a clock.
pub fn probe(site: &'static str, a: u64, b: u64) {
    let task = cur_task();
    let step = cur_step();
    with_ctx(|c| {
        let d = &mut c.stats.digest;
        *d = fold(fold(fold(fold(*d, str_hash(site)), task as u64), a), b);
        *c.stats.counters.entry(site.to_string()).or_insert(0) += 1;
        if c.cfg.keep_events && c.stats.events.len() < 200_000 {
            c.stats.events.push(Event { site, task, a, b, step });
        }
    });
}

pub fn count(site: &str, n: u64) {
    with_ctx(|c| {
        *c.stats.counters.entry(site.to_string()).or_insert(0) += n;
    });
}

/// Cooperative "legal but unusual" switch.  False outside a run and at sites not enabled for
/// this run.
pub fn buggify(site: &'static str) -> bool {
    with_ctx(|c| {
        let Some(&(_, p)) = c.cfg.buggify_sites.iter().find(|(s, _)| s == site) else {
            return false;
        };
        let fired = c.bug_fired.entry(site.to_string()).or_insert(0);
        if *fired >= c.cfg.buggify_cap {
            return false;
        }
        let hit = c.bug_rng.below(256) < p as u64;
        if hit {
            *fired += 1;
            *c.stats.buggify_fired.entry(site.to_string()).or_insert(0) += 1;
            c.stats.digest = fold(fold(c.stats.digest, 0xB066), str_hash(site));
        }
        hit
    })
    .unwrap_or(false)
}

/// A place where an internal failure (panic) can be injected.
pub fn fault_point(site: &'static str) {
    let fire = with_ctx(|c| {
        let n = c.stats.fault_points_seen.entry(site.to_string()).or_insert(0);
        let nth = *n;
        *n += 1;
        if c.cfg.panic_faults.iter().any(|f| f.site == site && f.nth == nth) {
            c.stats.faults_fired.push(format!("panic@{site}#{nth}"));
            c.stats.digest = fold(fold(c.stats.digest, 0xFA17), str_hash(site) ^ nth);
            true
        } else {
            false
        }
    })
    .unwrap_or(false);
    if fire {
        std::panic::panic_any(InjectedPanic(format!("injected internal failure at {site}")));
    }
}

// --- services for the shims --------------------------------------------------------------------

pub fn par_cfg() -> Option<ParCfg> {
    with_ctx(|c| c.cfg.par.clone())
}

pub fn shim_below(n: u64) -> u64 {
    with_ctx(|c| c.shim_rng.below(n)).unwrap_or(0)
}

pub fn note_par_call(items: usize, workers: usize) {
    with_ctx(|c| {
        c.stats.par_calls += 1;
        c.stats.par_items += items as u64;
        c.stats.max_workers_used = c.stats.max_workers_used.max(workers as u64);
        c.stats.digest = fold(fold(c.stats.digest, 0x9A11), ((items as u64) << 8) | workers as u64);
    });
}

pub fn note_pickup(worker_task: u32, item: usize) {
    with_ctx(|c| {
        c.stats.digest = fold(fold(c.stats.digest, 0x91C0 ^ worker_task as u64), item as u64);
    });
}

pub fn note_tls(init: bool) {
    with_ctx(|c| {
        if init {
            c.stats.tls_inits += 1
        } else {
            c.stats.tls_reuse += 1
        }
    });
}

pub fn note_steps(steps: u64) {
    with_ctx(|c| c.stats.steps = c.stats.steps.max(steps));
}

// --- hash seed stream --------------------------------------------------------------------------

/// Fill `buf` from the run's hash-seed stream.  Returns false when no run is active on this
/// thread (the caller then falls back to the OS).
pub fn hash_stream_fill(buf: &mut [u8]) -> bool {
    with_ctx(|c| {
        for chunk in buf.chunks_mut(8) {
            let v = c.hash_rng.next_u64().to_le_bytes();
            chunk.copy_from_slice(&v[..chunk.len()]);
        }
        c.stats.hash_draws += 1;
        c.stats.digest = fold(c.stats.digest, 0x4A5E);
    })
    .is_some()
}

pub fn hash_stream_u64() -> Option<u64> {
    with_ctx(|c| {
        c.stats.hash_draws += 1;
        c.stats.digest = fold(c.stats.digest, 0x4A5F);
        c.hash_rng.next_u64()
    })
}

// --- simulated disk access for fs.rs -----------------------------------------------------------

pub(crate) fn with_disk<T>(f: impl FnOnce(&mut fs::Disk, &mut RunStats) -> T) -> Option<T> {
    with_ctx(|c| f(&mut c.disk, &mut c.stats))
}
