//! Simulated disk behind `Link::_load` / `Braid::_load` (hook: `yui_verif_rt::fs::read_to_string`).
//!
//! Files come from an in-memory map; paths not in the map fall through to the real file system
//! (the repository's bundled resource tables, whose content is fixed) unless `passthrough` is off.
//! A per-run fault plan is applied to the n-th read of the run.

use std::collections::BTreeMap;
use std::io;

#[derive(Clone, Debug, PartialEq, Eq)]
pub enum DiskFaultKind {
    NotFound,
    PermissionDenied,
    /// EIO in the middle of the read
    Io,
    /// EINTR once, then the read succeeds (std retries `Interrupted`, so does the simulated disk)
    InterruptedThenOk,
    /// the file is cut after `k` bytes (short / torn file)
    ShortRead(usize),
    /// one flipped bit
    BitFlip { byte: usize, bit: u8 },
    /// byte `k` is replaced by 0xFF (never valid UTF-8)
    InvalidUtf8(usize),
    Empty,
    /// trailing bytes after the intact content (a second document, junk, a stray bracket)
    Append(Vec<u8>),
    /// torn rewrite: new content written over the old one without truncating the file, so the tail
    /// of the old (longer) content survives behind the new one
    TornOverwrite(Vec<u8>),
}

#[derive(Clone, Debug, PartialEq, Eq)]
pub struct DiskFault {
    /// index of the read call within the run
    pub nth_read: u64,
    pub kind: DiskFaultKind,
}

#[derive(Clone, Debug, Default)]
pub struct Disk {
    pub files: BTreeMap<String, Vec<u8>>,
    pub faults: Vec<DiskFault>,
    pub passthrough: bool,
    pub reads: u64,
    /// (path, bytes delivered or error) for every read, for the oracle
    pub log: Vec<(String, Result<Vec<u8>, String>)>,
}

impl Disk {
    pub fn passthrough() -> Self {
        Disk { passthrough: true, ..Default::default() }
    }
}

fn apply(kind: &DiskFaultKind, mut data: Vec<u8>) -> io::Result<Vec<u8>> {
    use DiskFaultKind::*;
    match kind {
        NotFound => Err(io::Error::new(io::ErrorKind::NotFound, "simulated: no such file")),
        PermissionDenied => Err(io::Error::new(io::ErrorKind::PermissionDenied, "simulated: permission denied")),
        Io => Err(io::Error::new(io::ErrorKind::Other, "simulated: EIO")),
        InterruptedThenOk => Ok(data),
        ShortRead(k) => {
            data.truncate(*k);
            Ok(data)
        }
        BitFlip { byte, bit } => {
            if let Some(b) = data.get_mut(*byte) {
                *b ^= 1 << (bit & 7);
            }
            Ok(data)
        }
        InvalidUtf8(k) => {
            if let Some(b) = data.get_mut(*k) {
                *b = 0xFF;
            }
            Ok(data)
        }
        Empty => Ok(vec![]),
        Append(tail) => {
            data.extend_from_slice(tail);
            Ok(data)
        }
        TornOverwrite(new) => {
            let mut out = new.clone();
            if data.len() > new.len() {
                out.extend_from_slice(&data[new.len()..]);
            }
            Ok(out)
        }
    }
}

pub fn read_to_string<P: AsRef<std::path::Path>>(path: P) -> io::Result<String> {
    let p = path.as_ref().to_string_lossy().to_string();
    let planned = crate::with_disk(|d, stats| {
        let n = d.reads;
        d.reads += 1;
        let fault = d.faults.iter().find(|f| f.nth_read == n).map(|f| f.kind.clone());
        if let Some(k) = &fault {
            stats.faults_fired.push(format!("disk:{k:?}@read{n}"));
        }
        (d.files.get(&p).cloned(), d.passthrough, fault)
    });
    let Some((mem, passthrough, fault)) = planned else {
        return std::fs::read_to_string(path);
    };
    let base: io::Result<Vec<u8>> = match mem {
        Some(b) => Ok(b),
        // only the repository's bundled resource tables are read from the real file system; any
        // other path exists on the simulated disk or not at all (a run must not depend on what
        // else happens to be on the machine or on the current directory)
        None if passthrough && p.contains("/resources/") && !p.contains("..") => std::fs::read(&p),
        None => Err(io::Error::new(io::ErrorKind::NotFound, "simulated: no such file")),
    };
    let res = match (base, fault) {
        (Ok(b), Some(k)) => apply(&k, b),
        (Err(_), Some(k @ (DiskFaultKind::PermissionDenied | DiskFaultKind::Io))) => apply(&k, vec![]),
        (r, _) => r,
    };
    crate::with_disk(|d, _| {
        d.log.push((p.clone(), res.as_ref().map(|b| b.clone()).map_err(|e| e.to_string())));
    });
    crate::digest_note(0xD15C, res.as_ref().map(|b| b.len() as u64).unwrap_or(u64::MAX));
    let bytes = res?;
    String::from_utf8(bytes).map_err(|_| io::Error::new(io::ErrorKind::InvalidData, "stream did not contain valid UTF-8"))
}

/// The reads performed so far in this run (path, delivered bytes or error).
pub fn read_log() -> Vec<(String, Result<Vec<u8>, String>)> {
    crate::with_disk(|d, _| d.log.clone()).unwrap_or_default()
}
