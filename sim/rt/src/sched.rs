//! TraceScheduler — the one place where "who runs next" is decided.
//!
//! Generate mode: every decision is drawn from one PRNG stream (derived from the run seed) under
//! one of four strategies, and appended to a trace.  Replay mode: a recorded decision list is
//! followed; `strict` makes any divergence a harness error, lenient replay (used only while
//! shrinking) falls back to the default policy "keep running the current task, else lowest id".

use crate::Rng;
use shuttle::scheduler::{Schedule, Scheduler, Task, TaskId};
use std::sync::{Arc, Mutex};

#[derive(Clone, Debug, PartialEq)]
pub enum Strategy {
    /// uniform choice among runnable tasks at every point
    Uniform,
    /// stay on the current task with probability p/100
    Sticky(u32),
    /// PCT-style: random priorities, `depth` priority change points within `horizon` steps
    Pct { depth: u32, horizon: u32 },
    /// one task (`victim`-th spawned worker) is not scheduled during steps [from, from+len) while
    /// others are runnable; otherwise sticky(80)
    Stall { victim: u32, from: u32, len: u32 },
}

impl Strategy {
    pub fn describe(&self) -> String {
        match self {
            Strategy::Uniform => "uniform".into(),
            Strategy::Sticky(p) => format!("sticky:{p}"),
            Strategy::Pct { depth, horizon } => format!("pct:{depth}:{horizon}"),
            Strategy::Stall { victim, from, len } => format!("stall:{victim}:{from}:{len}"),
        }
    }
    pub fn parse(s: &str) -> Option<Strategy> {
        let p: Vec<&str> = s.split(':').collect();
        let n = |i: usize| p.get(i).and_then(|x| x.parse::<u32>().ok());
        match p[0] {
            "uniform" => Some(Strategy::Uniform),
            "sticky" => Some(Strategy::Sticky(n(1)?)),
            "pct" => Some(Strategy::Pct { depth: n(1)?, horizon: n(2)? }),
            "stall" => Some(Strategy::Stall { victim: n(1)?, from: n(2)?, len: n(3)? }),
            _ => None,
        }
    }
    pub fn draw(rng: &mut Rng) -> Strategy {
        match rng.below(10) {
            0..=2 => Strategy::Uniform,
            3..=5 => Strategy::Sticky(*rng.pick(&[50, 80, 95])),
            6..=7 => Strategy::Pct { depth: 1 + rng.below(4) as u32, horizon: *rng.pick(&[40, 150, 600, 2500]) },
            _ => {
                let span = *rng.pick(&[20u64, 100, 500]);
                Strategy::Stall {
                    victim: 1 + rng.below(8) as u32,
                    from: rng.below(span) as u32,
                    len: *rng.pick(&[10, 40, 200, 1000]),
                }
            }
        }
    }
}

#[derive(Debug)]
pub enum Mode {
    Generate { rng: Rng, strategy: Strategy },
    Replay { decisions: Vec<u32>, strict: bool },
}

#[derive(Debug, Default)]
pub struct TraceOut {
    pub decisions: Vec<u32>,
    /// number of decisions at which more than one task was runnable
    pub choice_points: u64,
    /// set when strict replay could not follow the recorded trace
    pub diverged: Option<String>,
}

#[derive(Debug)]
pub struct TraceScheduler {
    mode: Mode,
    started: bool,
    step: u32,
    pos: usize,
    // pct state
    prio: Vec<u64>,
    change_points: Vec<u32>,
    low: u64,
    out: Arc<Mutex<TraceOut>>,
    data_rng: Rng,
}

impl TraceScheduler {
    pub fn new(mode: Mode, data_seed: u64) -> (Self, Arc<Mutex<TraceOut>>) {
        let out = Arc::new(Mutex::new(TraceOut::default()));
        let mut s = TraceScheduler {
            mode,
            started: false,
            step: 0,
            pos: 0,
            prio: vec![],
            change_points: vec![],
            low: 0,
            out: out.clone(),
            data_rng: Rng::new(data_seed),
        };
        if let Mode::Generate { rng, strategy: Strategy::Pct { depth, horizon } } = &mut s.mode {
            s.change_points = (0..*depth).map(|_| rng.below(*horizon as u64) as u32).collect();
        }
        (s, out)
    }

    fn default_policy(runnable: &[u32], current: Option<u32>) -> u32 {
        match current {
            Some(c) if runnable.contains(&c) => c,
            _ => *runnable.iter().min().unwrap(),
        }
    }
}

impl Scheduler for TraceScheduler {
    fn new_execution(&mut self) -> Option<Schedule> {
        if self.started {
            None
        } else {
            self.started = true;
            Some(Schedule::new(0))
        }
    }

    fn next_task(&mut self, runnable: &[&Task], current: Option<TaskId>, _is_yielding: bool) -> Option<TaskId> {
        // shuttle also offers tasks that are blocked in `park` (they "may wake spuriously").  Every
        // waiter in the simulator re-checks its condition in a loop and every state change unparks
        // the waiters, so spurious wake-ups add no behaviour; scheduling them would only let a
        // parked task spin (and, under a priority strategy, starve everybody else).
        let mut ids: Vec<u32> = runnable.iter().filter(|t| t.runnable()).map(|t| usize::from(t.id()) as u32).collect();
        if ids.is_empty() {
            ids = runnable.iter().map(|t| usize::from(t.id()) as u32).collect();
        }
        let cur = current.map(|t| usize::from(t) as u32);
        let step = self.step;
        self.step += 1;

        let choice = match &mut self.mode {
            Mode::Replay { decisions, strict } => {
                let want = decisions.get(self.pos).copied();
                self.pos += 1;
                match want {
                    Some(w) if ids.contains(&w) => w,
                    other => {
                        if *strict {
                            let mut o = self.out.lock().unwrap();
                            if o.diverged.is_none() {
                                o.diverged = Some(format!(
                                    "step {step}: recorded {other:?}, runnable {ids:?}"
                                ));
                            }
                            return None;
                        }
                        Self::default_policy(&ids, cur)
                    }
                }
            }
            Mode::Generate { rng, strategy } => {
                if ids.len() == 1 {
                    ids[0]
                } else {
                    match strategy {
                        Strategy::Uniform => *rng.pick(&ids),
                        Strategy::Sticky(p) => match cur {
                            Some(c) if ids.contains(&c) && rng.below(100) < *p as u64 => c,
                            _ => *rng.pick(&ids),
                        },
                        Strategy::Pct { .. } => {
                            let maxid = *ids.iter().max().unwrap() as usize;
                            while self.prio.len() <= maxid {
                                // high random priorities; lowered ones count down from below
                                self.prio.push((1 << 32) + rng.below(1 << 31));
                            }
                            if self.change_points.contains(&step) {
                                if let Some(c) = cur {
                                    if (c as usize) < self.prio.len() {
                                        self.low += 1;
                                        self.prio[c as usize] = (1 << 31) - self.low;
                                    }
                                }
                            }
                            *ids.iter().max_by_key(|&&i| self.prio[i as usize]).unwrap()
                        }
                        Strategy::Stall { victim, from, len } => {
                            let stalled = step >= *from && step < *from + *len;
                            let pool: Vec<u32> = if stalled && ids.iter().any(|i| i != victim) {
                                ids.iter().copied().filter(|i| i != victim).collect()
                            } else {
                                ids.clone()
                            };
                            match cur {
                                Some(c) if pool.contains(&c) && rng.below(100) < 80 => c,
                                _ => *rng.pick(&pool),
                            }
                        }
                    }
                }
            }
        };

        {
            let mut o = self.out.lock().unwrap();
            o.decisions.push(choice);
            if ids.len() > 1 {
                o.choice_points += 1;
            }
        }
        crate::digest_note(0x5CED, ((ids.len() as u64) << 32) | choice as u64);
        Some(TaskId::from(choice as usize))
    }

    fn next_u64(&mut self) -> u64 {
        self.data_rng.next_u64()
    }
}
