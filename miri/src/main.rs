//! yui-miri <what> <case-seed> <cases>
//!   what = pivots | solve
//! Generates small integer matrices from a tiny PRNG, runs the real multi-threaded kernels on a
//! 3-thread rayon pool and checks the result with an own dense oracle.  Exit code 0 = ok,
//! 101 (panic) = violation.  The interleaving is Miri's: `-Zmiri-seed` / `-Zmiri-many-seeds`.

use yui_matrix::sparse::pivot::{find_pivots, PivotCondition, PivotType};
use yui_matrix::sparse::triang::{solve_triangular, TriangularType};
use yui_matrix::sparse::SpMat;
use yui_matrix::MatTrait;

struct Rng(u64);
impl Rng {
    fn next(&mut self) -> u64 {
        self.0 = self.0.wrapping_add(0x9E37_79B9_7F4A_7C15);
        let mut z = self.0;
        z = (z ^ (z >> 30)).wrapping_mul(0xBF58_476D_1CE4_E5B9);
        z = (z ^ (z >> 27)).wrapping_mul(0x94D0_49BB_1331_11EB);
        z ^ (z >> 31)
    }
    fn below(&mut self, n: u64) -> u64 { self.next() % n }
}

fn dense(a: &SpMat<i64>) -> Vec<Vec<i64>> {
    let (m, n) = a.shape();
    let mut d = vec![vec![0i64; n]; m];
    for (i, j, v) in a.iter() { d[i][j] += *v; }
    d
}

fn check_pivots(a: &SpMat<i64>, rows: bool, pivs: &[(usize, usize)]) {
    let d = dense(a);
    let mut sr = std::collections::BTreeSet::new();
    let mut sc = std::collections::BTreeSet::new();
    for &(i, j) in pivs {
        assert!(sr.insert(i), "duplicate row {i} in {pivs:?}");
        assert!(sc.insert(j), "duplicate col {j} in {pivs:?}");
        assert!(d[i][j] == 1 || d[i][j] == -1, "pivot ({i},{j}) = {} is not +-1", d[i][j]);
    }
    for (k, &(rk, _)) in pivs.iter().enumerate() {
        for (l, &(_, cl)) in pivs.iter().enumerate() {
            if (rows && k > l) || (!rows && k < l) {
                assert!(d[rk][cl] == 0, "not triangular: a[{rk}][{cl}] != 0, pivots {pivs:?}");
            }
        }
    }
}

fn main() {
    let args: Vec<String> = std::env::args().collect();
    let what = args.get(1).map(|s| s.as_str()).unwrap_or("pivots");
    let seed: u64 = args.get(2).and_then(|s| s.parse().ok()).unwrap_or(1);
    let cases: u64 = args.get(3).and_then(|s| s.parse().ok()).unwrap_or(2);
    rayon::ThreadPoolBuilder::new().num_threads(3).build_global().unwrap();
    let mut rng = Rng(seed);
    for _ in 0..cases {
        match what {
            "pivots" => {
                // "phase-3 heavy" shape: every row starts in column 0 with a non-unit, rows are dense
                let (m, n) = (6 + rng.below(4) as usize, 5 + rng.below(3) as usize);
                let mut es = vec![];
                for i in 0..m {
                    es.push((i, 0, 2i64));
                    for j in 1..n {
                        if rng.below(100) < 45 {
                            es.push((i, j, if rng.below(5) == 0 { 2 } else if rng.below(2) == 0 { 1 } else { -1 }));
                        }
                    }
                }
                let a = SpMat::from_entries((m, n), es);
                let rows = rng.below(2) == 0;
                let pivs = find_pivots(&a, if rows { PivotType::Rows } else { PivotType::Cols }, PivotCondition::One);
                check_pivots(&a, rows, &pivs);
            }
            _ => {
                let n = 4 + rng.below(4) as usize;
                let k = 6 + rng.below(6) as usize;
                let upper = rng.below(2) == 0;
                let mut es = vec![];
                for i in 0..n {
                    es.push((i, i, if rng.below(2) == 0 { 1i64 } else { -1 }));
                    for j in 0..n {
                        if ((upper && j > i) || (!upper && j < i)) && rng.below(100) < 40 {
                            es.push((i, j, rng.below(5) as i64 - 2));
                        }
                    }
                }
                let a = SpMat::from_entries((n, n), es);
                let mut ys = vec![];
                for j in 0..k {
                    let dens = [0, 10, 50, 100][rng.below(4) as usize];
                    for i in 0..n {
                        if rng.below(100) < dens { ys.push((i, j, rng.below(7) as i64 - 3)); }
                    }
                }
                let y = SpMat::from_entries((n, k), ys);
                let x = solve_triangular(if upper { TriangularType::Upper } else { TriangularType::Lower }, &a, &y);
                let (da, dx, dy) = (dense(&a), dense(&x), dense(&y));
                for i in 0..n { for j in 0..k {
                    let s: i64 = (0..n).map(|l| da[i][l] * dx[l][j]).sum();
                    assert!(s == dy[i][j], "A*X != Y at ({i},{j})");
                } }
            }
        }
    }
    println!("ok {what} seed={seed} cases={cases}");
}
