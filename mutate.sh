#!/bin/bash
# usage: mutate.sh <patchfile|-e 'sed-expr' file> -- <check args...>
# applies a change to /repo, runs ./check, always restores /repo (git checkout -- .)
set -u
cd /repo
if [ "$1" = "-e" ]; then sed -i "$2" "$3"; shift 3; else git apply "$1" || exit 3; shift; fi
[ "${1:-}" = "--" ] && shift
git -C /repo diff --stat | tail -1
cd /verif
VERIF_EVIDENCE=/tmp/ev_mut.json ./check "$@" 2>&1 | grep -v "^Test deadlocked" | tail -12
rc=${PIPESTATUS[0]}
git -C /repo checkout -- .
# never leave a mutant build behind: rebuild the harness from the restored tree
(cd /verif/sim && env -u RUSTFLAGS CARGO_TARGET_DIR=/verif/target cargo build --release --offline -p yui-sim >/dev/null 2>&1) || echo "WARNING: rebuild after restore failed"
echo "check exit=$rc"
